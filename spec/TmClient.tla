------------------------------- MODULE TmClient -------------------------------
(***************************************************************************)
(* C07 - the 07-tendermint light client of tibc-go:                        *)
(*   modules/tibc/core/keeper/msg_server.go          UpdateClient          *)
(*   modules/tibc/core/02-client/keeper/client.go    UpdateClient          *)
(*   modules/tibc/light-clients/07-tendermint/types/update.go              *)
(*   cometbft light.Verify / VerifyAdjacent / VerifyNonAdjacent            *)
(*                                                                         *)
(* "A Tendermint client update is accepted if and only if the header is    *)
(*  newer than and in the same revision as a stored trusted state, the     *)
(*  supplied trusted validators are the ones that state committed to,      *)
(*  enough voting power signed (over the trust level of the trusted set    *)
(*  and over two thirds of the header's own set), the header time is       *)
(*  within the trusting period and clock drift, and the client is not      *)
(*  expired.  On acceptance the consensus state stored for that height is  *)
(*  the header's time, app hash and next-validators hash and the latest    *)
(*  height never decreases; on rejection nothing changes."                 *)
(*                                                                         *)
(* Accept(s, h) is that sentence, written from the statement.              *)
(* Check(s, h) is the same decision in the order in which the code tests   *)
(* it, returning the name of the first failing test ("" = accepted).       *)
(* TmClientMC!Inv_Update (checked exhaustively by TLC) says they agree.      *)
(*                                                                         *)
(* Client state s (exactly the shape the harness projects the real client  *)
(* store onto):                                                            *)
(*   par    [num, den, period, drift, rev]  trust level num/den, trusting  *)
(*          period, max clock drift (ticks), revision of the chain id      *)
(*   cons   {<<rev, height, time, root, nv>>}  consensus states: time      *)
(*          (tick), app-hash id, id of the next validator set              *)
(*   latest <<rev, height>>   (<<0,0>> = no client)                        *)
(*   now    block time of the host chain (tick)                            *)
(* Hashes are identities: a validator set is known by its id in VS, an     *)
(* app hash by a small number.  Time is in ticks; the harness maps a tick  *)
(* linearly onto real time (1 ns, 1 s or 1 h per tick), so every equality  *)
(* below is an equality of real timestamps.                                *)
(*                                                                         *)
(* Readings chosen where the statement leaves room (each is what the       *)
(* unchanged code does; none weakens an "accepted only if"):               *)
(*  R1 "the client is not expired" = the consensus state stored at the     *)
(*     LATEST HEIGHT is not expired (02-client UpdateClient -> Status),    *)
(*     even when a lower height carries a later timestamp.                 *)
(*  R2 "a stored trusted state" = the one the header names in its          *)
(*     TrustedHeight (revision and height); it must itself be unexpired.   *)
(*  R3 expiry is inclusive: a state is expired when time + period <= now   *)
(*     (IsExpired / HeaderExpired: !expiration.After(now)).                *)
(*  R4 trusted.time < header.time < now + drift, both strict.              *)
(*  R5 "over the trust level": signed * den > total * num, strict, with    *)
(*     the powers the validators have IN THE TRUSTED SET; "over two        *)
(*     thirds": 3 * signed > 2 * total, strict, powers of the header's set.*)
(*  R6 a header for height trusted+1 must additionally carry exactly the   *)
(*     validator set the trusted state committed to (VerifyAdjacent); the  *)
(*     code then skips the trust-level test, which is implied for levels   *)
(*     <= 2/3 (stated bound: trust levels above 2/3 are not modelled).     *)
(*  R7 a header for a height that already has a consensus state is treated *)
(*     like any other: if it passes it OVERWRITES the stored state (this   *)
(*     tree has no conflicting-header / misbehaviour branch in update.go). *)
(*  R8 on acceptance, and before the new state is written, the code looks  *)
(*     at the consensus state with the LOWEST height only and deletes it   *)
(*     if it is expired (pruneCb returns true on the first element).       *)
(***************************************************************************)
EXTENDS Integers, FiniteSets, Sequences, TLC

VARIABLES st,      \* the client state (record above)
          evlog    \* history: events so far (behaviour generation only)

vars == <<st, evlog>>

-------------------------------------------------------------------------------
(* Universe of validator sets: 4 validators, powers from {1,2,3}; a set is identified by its       *)
(* (validator, power) pairs.  The same validator has different powers in different sets, and the   *)
(* sets contain exact-1/3, exact-1/2 and exact-2/3 signer subsets:                                 *)
(*   S1 T=4  {v1,v2}=1/2            S2 T=3  {v1}=1/3 {v1,v2}=2/3     S3 T=6 {v2}=1/3 {v1,v3}=2/3     *)
(*   S4 T=3  {v2}=1/3 {v1}=2/3      S5 T=6  {v1,v2}=1/3 {v1,v4}=2/3  S6 T=9 {v2}=1/3 {v2,v3}=2/3     *)
(*   S8 T=9  {v1}=1/3 {v2,v3,v4}=2/3                 S10 T=6 {v1}=1/3 {v1,v2}=2/3 {v1,v2,v3}=1       *)
Validators == {"v1", "v2", "v3", "v4"}
VS == ( "S1" :> {<<"v1", 1>>, <<"v2", 1>>, <<"v3", 1>>, <<"v4", 1>>} ) @@
      ( "S2" :> {<<"v1", 1>>, <<"v2", 1>>, <<"v3", 1>>} ) @@
      ( "S3" :> {<<"v1", 1>>, <<"v2", 2>>, <<"v3", 3>>} ) @@
      ( "S4" :> {<<"v1", 2>>, <<"v2", 1>>} ) @@
      ( "S5" :> {<<"v1", 1>>, <<"v2", 1>>, <<"v3", 1>>, <<"v4", 3>>} ) @@
      ( "S6" :> {<<"v2", 3>>, <<"v3", 3>>, <<"v4", 3>>} ) @@
      ( "S7" :> {<<"v4", 1>>} ) @@
      ( "S8" :> {<<"v1", 3>>, <<"v2", 2>>, <<"v3", 2>>, <<"v4", 2>>} ) @@
      ( "S9" :> {<<"v3", 2>>, <<"v4", 1>>} ) @@
      ( "S10" :> {<<"v1", 2>>, <<"v2", 2>>, <<"v3", 2>>} ) @@
      ( "S11" :> {<<"v1", 1>>, <<"v2", 2>>} )
SetIds == DOMAIN VS

RECURSIVE SumP(_)
SumP(X) == IF X = {} THEN 0 ELSE LET x == CHOOSE x \in X : TRUE IN x[2] + SumP(X \ {x})
\* tables, evaluated once (constant level)
MembersF == [s \in SetIds |-> {x[1] : x \in VS[s]}]
TotalF   == [s \in SetIds |-> SumP(VS[s])]
PowerF   == [s \in SetIds |-> [V \in SUBSET Validators |-> SumP({x \in VS[s] : x[1] \in V})]]
Members(s) == MembersF[s]
Total(s) == TotalF[s]
\* voting power, counted with the powers of set s, of those members of s that are in V
Power(s, V) == PowerF[s][V]

-------------------------------------------------------------------------------
(* Heights are <<revision, height>>, ordered lexicographically (02-client types.Height) *)
GT(a, b)  == a[1] > b[1] \/ (a[1] = b[1] /\ a[2] > b[2])
LTE(a, b) == ~GT(a, b)
HeightOf(c) == <<c[1], c[2]>>

NoClient == [par |-> [num |-> 0, den |-> 0, period |-> 0, drift |-> 0, rev |-> 0],
             cons |-> {}, latest |-> <<0, 0>>, now |-> 0]
Created(s) == s.latest # <<0, 0>>

At(s, hh) == {c \in s.cons : HeightOf(c) = hh}
Expired(s, t) == t + s.par.period <= s.now                                  \* R3

\* 07-tendermint ClientState.Status
Status(s) == IF ~Created(s) THEN "None"
             ELSE IF At(s, s.latest) = {} THEN "Unknown"
             ELSE IF \E c \in At(s, s.latest) : Expired(s, c[3]) THEN "Expired"
             ELSE "Active"

OverTrust(p, tv, S) == Power(tv, S) * p.den > Total(tv) * p.num             \* R5
OverTwoThirds(vs, S) == 3 * Power(vs, S) > 2 * Total(vs)                    \* R5

(* A header descriptor h:                                                                            *)
(*   rev, height     revision (taken from the header's chain id) and height                          *)
(*   time, root      timestamp (tick), app hash id                                                   *)
(*   vals, nextVals  ids of the header's validator set and next validator set                        *)
(*   signers         the validators (members of vals) whose precommit for the block is in the commit *)
(*   trev, trusted   the TrustedHeight the relayer names                                             *)
(*   trustedVals     id of the TrustedValidators the relayer supplies                                *)

\* The property statement.
Accept(s, h) ==
  /\ Status(s) = "Active"                                                    \* the client is not expired (R1)
  /\ \E c \in s.cons :                                                       \* a stored trusted state ...
       /\ HeightOf(c) = <<h.trev, h.trusted>>                                \* ... the named one (R2)
       /\ h.rev = c[1] /\ h.height > c[2]                                    \* newer, same revision
       /\ h.trustedVals = c[5]                                               \* the validators that state committed to
       /\ (h.height = c[2] + 1 => h.vals = c[5])                             \* R6
       /\ OverTrust(s.par, h.trustedVals, h.signers)                         \* over the trust level of the trusted set
       /\ OverTwoThirds(h.vals, h.signers)                                   \* over two thirds of the header's own set
       /\ c[3] < h.time /\ h.time < s.now + s.par.drift                      \* after the trusted time, within drift (R4)
       /\ ~Expired(s, c[3])                                                  \* within the trusting period (R2, R3)

\* The same decision in the order of the code; the result names the first failing test.
Check(s, h) ==
  IF ~Created(s) THEN "no_client"
  ELSE IF Status(s) # "Active" THEN "client_not_active"                      \* 02-client UpdateClient
  ELSE IF At(s, <<h.trev, h.trusted>>) = {} THEN "no_trusted_state"          \* GetConsensusState(TrustedHeight)
  ELSE LET c == CHOOSE c \in At(s, <<h.trev, h.trusted>>) : TRUE IN
       IF h.trustedVals # c[5] THEN "trusted_validators"                     \* checkTrustedHeader
       ELSE IF h.rev # h.trev THEN "revision"
       ELSE IF LTE(<<h.rev, h.height>>, <<h.trev, h.trusted>>) THEN "height_not_newer"
       ELSE IF Expired(s, c[3]) THEN "trusted_state_expired"                 \* light.HeaderExpired
       ELSE IF ~(h.time > c[3]) THEN "time_not_after_trusted"                \* verifyNewHeaderAndVals
       ELSE IF ~(h.time < s.now + s.par.drift) THEN "time_in_future"
       ELSE IF h.height = c[2] + 1
            THEN IF h.vals # c[5] THEN "adjacent_validators"                 \* VerifyAdjacent
                 ELSE IF ~OverTwoThirds(h.vals, h.signers) THEN "two_thirds"
                 ELSE ""
            ELSE IF ~OverTrust(s.par, h.trustedVals, h.signers) THEN "trust_level"   \* VerifyNonAdjacent
                 ELSE IF ~OverTwoThirds(h.vals, h.signers) THEN "two_thirds"
                 ELSE ""

ConsOf(h) == <<h.rev, h.height, h.time, h.root, h.nextVals>>
Lowest(s) == CHOOSE c \in s.cons : \A d \in s.cons : LTE(HeightOf(c), HeightOf(d))

\* MsgUpdateClient: functional step.
UpdateRes(s, h) ==
  LET why == Check(s, h) IN
  IF why # "" THEN [ok |-> FALSE, st |-> s, why |-> why]
  ELSE LET o    == Lowest(s)
           kept == IF Expired(s, o[3]) THEN s.cons \ {o} ELSE s.cons                      \* R8
           hh   == <<h.rev, h.height>>
           new  == {c \in kept : HeightOf(c) # hh} \cup {ConsOf(h)}                        \* R7
       IN [ok |-> TRUE, why |-> "",
           st |-> [s EXCEPT !.cons = new, !.latest = IF GT(hh, @) THEN hh ELSE @]]

\* Client creation through 02-client CreateClient with the given parameters and initial consensus state.
CreateRes(s, e) ==
  [ok |-> TRUE, why |-> "",
   st |-> [par |-> e.par, cons |-> {<<e.par.rev, e.height, e.time, e.root, e.nextVals>>},
           latest |-> <<e.par.rev, e.height>>, now |-> e.now]]

\* The host chain's block time advances.
TickRes(s, e) == [ok |-> TRUE, why |-> "", st |-> [s EXCEPT !.now = @ + e.dt]]

StepRes(s, e) ==
  CASE e.act = "Create" -> CreateRes(s, e)
    [] e.act = "Tick"   -> TickRes(s, e)
    [] e.act = "Update" -> UpdateRes(s, e.hdr)

Do(e) == st' = StepRes(st, e).st

-------------------------------------------------------------------------------
(* Properties of the model itself, checked exhaustively by TLC (design check).  The model has no     *)
(* history variable for "the last event": the post-conditions are stated for EVERY header against   *)
(* the current state (UpdatePost, used in TmClientMC!Inv_Update), which is the property's own        *)
(* quantifier, and as action properties over the steps the model takes.                             *)

\* what the statement demands of one submission of header h in state s
UpdatePost(s, h) ==
  LET r == UpdateRes(s, h)   hh == <<h.rev, h.height>> IN
  IF r.ok
  THEN /\ Accept(s, h)                                                   \* accepted only if the rule holds
       /\ At(r.st, hh) = {ConsOf(h)}                                     \* the state stored for that height is the header's
       /\ r.st.latest = (IF GT(hh, s.latest) THEN hh ELSE s.latest)      \* latest = max: never decreases
       /\ r.st.cons \subseteq s.cons \cup {ConsOf(h)}                    \* nothing else is written
       /\ r.st.par = s.par /\ r.st.now = s.now
  ELSE /\ ~Accept(s, h)                                                  \* rejected only if the rule fails
       /\ r.st = s                                                       \* and nothing changes

\* the latest height never decreases
Prop_LatestMono == [][LTE(st.latest, st'.latest)]_vars
\* every stored consensus state was written by the creation or by an accepted header: a step adds at most one
Prop_Origin == [][Cardinality(st'.cons \ st.cons) <= 1]_vars
\* parameters never change once the client exists
Prop_ParFrame == [][Created(st) => st'.par = st.par]_vars
\* store shape: one state per height, all in the client's revision, none above the latest height,
\* and the state at the latest height is there (so Status is never Unknown)
Inv_Shape == Created(st) =>
               /\ \A c, d \in st.cons : HeightOf(c) = HeightOf(d) => c = d
               /\ \A c \in st.cons : c[1] = st.par.rev /\ LTE(HeightOf(c), st.latest)
               /\ At(st, st.latest) # {}
=============================================================================
