#!/bin/bash
# Offline setup: checks the tools, creates scratch space, and warms the Go build cache by building the
# conformance harness once from /repo's working tree. Fetches nothing.
set -e
cd "$(dirname "$0")"
export GOFLAGS=-mod=mod GOPROXY=off GOSUMDB=off GOTOOLCHAIN=local
for t in tlc go python3 java; do command -v $t >/dev/null || { echo "missing tool: $t"; exit 1; }; done
mkdir -p .work evidence replays
python3 - <<'PY'
import sys, os
sys.path.insert(0, os.getcwd())
from vlib import common as C
b, k = C.ensure_harness()
print("harness:", b)
PY
