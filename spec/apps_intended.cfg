\* design check of the application family: plain native classes only (the intended class universe)
CONSTANTS
  Chains = {"A","B","C"}
  Names = {"A","B","C","Z"}
  Ports = {"mock","ghost"}
  BoundPorts = {"mock","nft","mt"}
  Data = {}
  DecodableData = {}
  EmptyData <- NoDataRec
  AckTags = {"unauth","errX","ok","err"}
  MaxSeq = 2
  F_BIND = FALSE
  F_ACKCB_SRC_ONLY = TRUE
  F_STATUS = TRUE
  F_RELAY_DST_ERRACK = TRUE
  Links <- Links3
  RuleSets <- RuleSetsAppsSmall
  Senders = {"A"}
  Dests = {"C"}
  UserRelays = {"","B"}
  UserPorts = {"nft"}
  UserData = {}
  RuleChains = {"B"}
  AdvOn = FALSE
  ExpirePairs <- NoPairs
  ExportOn = FALSE
  LOG = FALSE
  SimDepth = 40
  SimMode = "mixed"
  Users = {"u1"}
  NftStarts = {"nft","nftkit"}
  MtStarts = {"mt"}
  MaxUnits = 3
  NftNatives <- NftNativesPlain
  NftIds = {"tom"}
  MtNatives <- MtNativesGen
  MtIds = {"t1"}
  Amounts = {1,2}
  AppSenders = {"A"}
  Receivers = {"u1","bad"}
  MaxPkts = 2
INIT AInit
NEXT ANext
INVARIANTS Inv_C04 Inv_C05 Inv_C05sup Inv_C02 Inv_C03 Inv_C13
CHECK_DEADLOCK FALSE
