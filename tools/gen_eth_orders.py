#!/usr/bin/env python3
"""Regenerates behaviours/eth/orders.json: for every tree listed below, EVERY order of submitting its headers
(parent before child), enumerated by TLC breadth-first from spec/EthMC.tla (InitOrders / NextOrders)."""
import json, os, re, shutil, sys, tempfile
sys.path.insert(0, os.path.dirname(os.path.dirname(os.path.abspath(__file__))))
from vlib import common as C

TREES = ["T_2_3", "T_3_3", "T_4_3", "T_4_4", "T_2_2_2", "T_nested", "T_comb3"]
LEN = {"T_2_3": 5, "T_3_3": 6, "T_4_3": 7, "T_4_4": 8, "T_2_2_2": 6, "T_3_2_2": 7, "T_3_3_2": 8, "T_3_3_3": 9, "T_nested": 7, "T_comb": 8, "T_comb3": 6}


def main():
    trees = sys.argv[1:] or TREES
    work = tempfile.mkdtemp(prefix="orders-")
    out = []
    try:
        C.copy_specs(work)
        base = open(os.path.join(work, "orders_eth.cfg")).read()
        for t in trees:
            cfg = re.sub(r"Tree <- \w+", "Tree <- " + t, base)
            cfg = re.sub(r"SimDepth = \d+", "SimDepth = %d" % (1 + 2 * LEN[t]), cfg)
            open(os.path.join(work, "o.cfg"), "w").write(cfg)
            rc, txt = C.tlc(work, "MCEth.tla", "o.cfg", workers=1, timeout=1200)
            n = 0
            for line in txt.splitlines():
                if line.startswith('<<"BEH", "'):
                    out.append(json.loads(json.loads(line[len('<<"BEH", '):-2])))
                    n += 1
            print(t, n, "orders")
            if n == 0:
                print(txt[-2000:])
                return 1
    finally:
        shutil.rmtree(work, ignore_errors=True)
    dst = os.path.join(C.VERIF, "behaviours", "eth", "orders.json")
    json.dump({"behaviours": out, "trees": trees}, open(dst, "w"))
    print(len(out), "behaviours ->", dst)
    return 0


if __name__ == "__main__":
    sys.exit(main())
