-------------------------------- MODULE EthMC --------------------------------
(***************************************************************************)
(* Closed system for Eth: an environment that builds headers on top of ANY  *)
(* header it has built before (so competing branches of any shape grow from  *)
(* the stored root and from each other), perturbs single fields of otherwise *)
(* valid children, lets chain time pass, and submits built headers to the    *)
(* client in any order, any number of times.                                 *)
(* Used for the exhaustive design check (Next), for behaviour generation     *)
(* (NextSim under -simulate), for the exhaustive enumeration of submission   *)
(* orders of fixed trees (InitOrders / NextOrders, breadth-first), and -     *)
(* through Eth!StepRes - by the trace specification.                         *)
(***************************************************************************)
EXTENDS Eth, Json

CONSTANTS MaxId,      \* ids 1..MaxId may be built
          MaxNum,     \* longest branch (number - root number)
          Now0,       \* chain time at the start
          MaxNow,     \* bound on chain time (exhaustive check only)
          Dts,        \* timestamp increments of valid children
          Ticks,      \* amounts by which chain time advances
          GLs, GUs, Uncs,   \* classes valid children are built with
          PertOn,     \* TRUE: single-field perturbations are built too
          RealN,      \* how many recorded mainnet headers may be built (0 = none)
          RealBudget, \* how many submissions that run the real ethash check a behaviour may contain
          RealTimes,  \* timestamps of the recorded headers (seconds after the root)
          Tree,       \* InitOrders: parent vector of the pre-built tree
          LOG, SimDepth

NextId == Cardinality(DOMAIN hs)

Init ==
  /\ hs = (0 :> RootHdr) /\ cl = Client0 /\ now = Now0 /\ refused = {}
  /\ evlog = IF LOG /\ Now0 > 0 THEN <<[act |-> "Tick", d |-> Now0]>> ELSE <<>>   \* the harness starts at chain time 0

Child(p, dt, g, u, c) ==
  [parent |-> p, num |-> hs[p].num + 1, time |-> hs[p].time + dt, gl |-> g, gu |-> u, bf |-> "ok", df |-> "ok",
   unc |-> c, pow |-> "hooked", src |-> "syn", k |-> 0, tag |-> "valid"]

ValidChildren(p) == {Child(p, dt, g, u, c) : dt \in Dts, g \in GLs, u \in GUs, c \in Uncs}

\* every single-field perturbation of an otherwise valid child v of p
Perturbed(v) ==
  LET p == hs[v.parent] IN
     {[h |-> [v EXCEPT !.time = p.time],      tag |-> "time_eq"],
      [h |-> [v EXCEPT !.time = p.time - 1],  tag |-> "time_before"],
      [h |-> [v EXCEPT !.time = now + Drift],     tag |-> "time_now15"],
      [h |-> [v EXCEPT !.time = now + Drift + 1], tag |-> "time_now16"],
      [h |-> [v EXCEPT !.num = p.num],        tag |-> "num_same"],
      [h |-> [v EXCEPT !.num = p.num + 2],    tag |-> "num_skip"],
      [h |-> [v EXCEPT !.gu = "over"],        tag |-> "gas_used_over"],
      [h |-> [v EXCEPT !.parent = Unknown],   tag |-> "unknown_parent"]}
\cup {[h |-> [v EXCEPT !.gl = g], tag |-> "gas_limit_" \o g] : g \in GLbad \cup {"up_max", "down_max"}}
\cup {[h |-> [v EXCEPT !.bf = b], tag |-> "base_fee_" \o b] : b \in BFs \ {"ok"}}
\cup {[h |-> [v EXCEPT !.df = d], tag |-> "difficulty_" \o d] : d \in DFs \ {"ok"}}

Parents == {p \in DOMAIN hs : hs[p].num < MaxNum}

BuildValid == {[act |-> "Build", id |-> NextId, hdr |-> v, tag |-> "valid"] : v \in UNION {ValidChildren(p) : p \in Parents}}
BuildPert  == {[act |-> "Build", id |-> NextId, hdr |-> [x.h EXCEPT !.tag = x.tag], tag |-> x.tag] :
                  x \in UNION {Perturbed(v) : v \in UNION {ValidChildren(p) : p \in Parents}}}

\* recorded mainnet headers: the k-th one can be built on the genuine (k-1)-th; also with a spoilt seal
RealId(k) == IF \E i \in DOMAIN hs : hs[i].src = "real" /\ hs[i].k = k /\ hs[i].pow = "mined"
             THEN CHOOSE i \in DOMAIN hs : hs[i].src = "real" /\ hs[i].k = k /\ hs[i].pow = "mined" ELSE None
RealHdr(k, pw) == [parent |-> RealId(k - 1), num |-> k, time |-> RealTimes[k], gl |-> "same", gu |-> "below", bf |-> "ok",
                   df |-> "ok", unc |-> 0, pow |-> pw, src |-> "real", k |-> k, tag |-> "real_" \o pw]
BuildReal == {[act |-> "Build", id |-> NextId, hdr |-> RealHdr(k, pw), tag |-> "real_" \o pw] :
                 k \in {k \in 1..RealN : RealId(k - 1) # None /\ RealId(k) = None}, pw \in {"mined", "mined", "badnonce", "badmix"}}
BuildUnmined == {[act |-> "Build", id |-> NextId, hdr |-> [v EXCEPT !.pow = "unmined", !.tag = "syn_unmined"], tag |-> "syn_unmined"] :
                 v \in UNION {ValidChildren(p) : p \in Parents}}

\* submissions that run the real ethash check are slow (3 s): a behaviour gets a budget
SlowUsed == Cardinality({i \in 1..Len(evlog) : evlog[i].act = "Submit" /\ evlog[i].slow = 1})
Slow(i)  == IF hs[i].pow # "hooked" /\ i \notin cl.index /\ Why(hs, cl, now, i, [hs[i] EXCEPT !.pow = "hooked"]) = "" THEN 1 ELSE 0
Submits  == {[act |-> "Submit", id |-> i, slow |-> Slow(i), tag |-> hs[i].tag] : i \in DOMAIN hs}
Affordable(S) == {e \in S : e.slow = 0 \/ SlowUsed < RealBudget}
TickEvents == {[act |-> "Tick", d |-> d] : d \in Ticks}

Log(e) == evlog' = IF LOG THEN Append(evlog, e) ELSE evlog

-------------------------------------------------------------------------------
Next ==
  \/ \E e \in {t \in TickEvents : now + t.d <= MaxNow} : Do(e) /\ Log(e)
  \/ NextId <= MaxId /\ \E e \in BuildValid : Do(e) /\ Log(e)
  \/ NextId <= MaxId /\ PertOn /\ \E e \in BuildPert : Do(e) /\ Log(e)
  \/ \E e \in Submits : Do(e) /\ Log(e)

Spec == Init /\ [][Next]_vars

-------------------------------------------------------------------------------
(* Generation: one randomly chosen event per step.                                                  *)
PickOr(S, alt) == IF S = {} THEN alt ELSE RandomElement(S)
Pending  == {e \in Affordable(Submits) : e.id \notin cl.index /\ hs[e.id].parent \in cl.index}
Promising == {e \in Pending : Why(hs, cl, now, e.id, hs[e.id]) = ""}
\* valid children of one randomly chosen header, stored ones preferred (that is where forks grow)
GrowAt == LET st == Parents \cap cl.index
              p  == IF st # {} /\ RandomElement(1..4) > 1 THEN RandomElement(st) ELSE PickOr(Parents, 0)
          IN IF hs[p].num < MaxNum THEN ValidChildren(p) ELSE {}

SimEvent ==
  LET roll  == RandomElement(1..20)
      tick  == RandomElement(TickEvents)
      anySub == PickOr(Affordable(Submits), tick)
      full  == NextId > MaxId
      grow  == GrowAt
      bv    == IF full \/ grow = {} THEN anySub
               ELSE [act |-> "Build", id |-> NextId, hdr |-> RandomElement(grow), tag |-> "valid"]
      bp    == IF full \/ grow = {} \/ ~PertOn THEN anySub
               ELSE LET x == RandomElement(Perturbed(RandomElement(grow))) IN
                    [act |-> "Build", id |-> NextId, hdr |-> [x.h EXCEPT !.tag = x.tag], tag |-> x.tag]
      br    == IF full THEN anySub
               ELSE IF BuildReal # {} /\ RandomElement(1..4) > 1 THEN RandomElement(BuildReal)
               ELSE IF RandomElement(1..3) = 1 /\ BuildUnmined # {} THEN RandomElement(BuildUnmined) ELSE bp
  IN  IF roll <= 5 THEN bv
      ELSE IF roll <= 8 THEN (IF RealN > 0 THEN br ELSE bp)
      ELSE IF roll <= 13 THEN PickOr(Promising, PickOr(Pending, bv))
      ELSE IF roll <= 15 THEN PickOr(Pending, anySub)
      ELSE IF roll <= 17 THEN anySub
      ELSE tick

NextSim == \E e \in {SimEvent} : Do(e) /\ Log(e)

\* prints one behaviour per line when it reaches the requested length
PrintBehaviour == (Len(evlog) = SimDepth) => PrintT(<<"BEH", ToJson(evlog)>>)

-------------------------------------------------------------------------------
(* Every order of submitting the headers of a fixed tree (parent before child).  Tree[i] is the     *)
(* parent of header i; all headers are valid, chain time is late enough for all of them.  Run        *)
(* breadth-first with LOG = TRUE: each order is one state, printed when the last header went in.    *)
TreeHdr(h, i) == [parent |-> Tree[i], num |-> h[Tree[i]].num + 1, time |-> h[Tree[i]].time + 1 + 9 * (i % 3),
                  gl |-> IF i % 4 = 1 THEN "up_max" ELSE IF i % 4 = 2 THEN "down_max" ELSE "same",
                  gu |-> IF i % 3 = 0 THEN "full" ELSE IF i % 3 = 1 THEN "target" ELSE "empty",
                  bf |-> "ok", df |-> "ok", unc |-> IF i % 5 = 0 THEN 1 ELSE 0, pow |-> "hooked", src |-> "syn", k |-> 0,
                  tag |-> "valid"]
RECURSIVE TreeHs(_)
TreeHs(n) == IF n = 0 THEN (0 :> RootHdr) ELSE LET h == TreeHs(n - 1) IN (n :> TreeHdr(h, n)) @@ h
TreeLog == <<[act |-> "Tick", d |-> 200]>> \o
           [i \in 1..Len(Tree) |-> [act |-> "Build", id |-> i, hdr |-> TreeHs(Len(Tree))[i], tag |-> "valid"]]

InitOrders ==
  /\ hs = TreeHs(Len(Tree)) /\ cl = Client0 /\ now = 200 /\ refused = {} /\ evlog = TreeLog
Submitted == {evlog[i].id : i \in {j \in 1..Len(evlog) : evlog[j].act = "Submit"}}
NextOrders ==
  \E i \in (1..Len(Tree)) \ Submitted :
     /\ Tree[i] \in Submitted \cup {0}
     /\ LET e == [act |-> "Submit", id |-> i, slow |-> 0, tag |-> "valid"] IN Do(e) /\ evlog' = Append(evlog, e)
=============================================================================
