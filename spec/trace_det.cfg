SPECIFICATION Spec
INVARIANT Done
CHECK_DEADLOCK FALSE
