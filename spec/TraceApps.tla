------------------------------ MODULE TraceApps ------------------------------
(***************************************************************************)
(* Trace specification for the application family (NFT / multi-token        *)
(* transfers over the packet layer).  Same scheme as TraceCore: every       *)
(* recorded step of the real code is (MONITOR) checked against the token    *)
(* level property formulas and the packet-level formulas of TraceCore, and  *)
(* (REFINE) compared with TibcApps!AppStepRes.                              *)
(***************************************************************************)
EXTENDS TraceCore, TibcApps

NoDataRecT == [k |-> "", cls |-> <<>>, id |-> "", snd |-> "", rcv |-> "", away |-> TRUE, amt |-> 0]
ConvLed(j) == [nft |-> SetOf(j.nft), mt |-> SetOf(j.mt), sup |-> SetOf(j.sup), tr |-> SetOf(j.tr), den |-> SetOf(j.den)]
ConvLeds(st) == [c \in Chains |-> ConvLed(st[c])]

AFresh(rec) ==
  /\ Fresh(rec)
  /\ led' = ConvLeds(rec.st)
  /\ tg' = {} /\ pk' = {} /\ minted' = {}

\* the harness omits empty fields of application events
AConvEv(ev) == IF ev.act \in {"Mint", "Xfer", "AppSend"}
               THEN ev @@ [relay |-> "", rcv |-> "", to |-> "", dst |-> "", amt |-> 0, id |-> "", u |-> "", k |-> "", cls |-> <<>>]
               ELSE ConvEv(ev)

ATraceInit ==
  /\ TraceInit
  /\ led = ConvLeds(TraceLog[1].st)
  /\ tg = {} /\ pk = {} /\ minted = {}

-------------------------------------------------------------------------------
ClassShape(cls) == IF cls = <<>> THEN "none"
                   ELSE IF cls[1] = "v" THEN "voucher"
                   ELSE IF Len(cls) > 2 /\ cls[2] \in (NftStarts \cup MtStarts) THEN "pathlike_native"
                   ELSE IF Len(cls) > 2 THEN "native_with_separator"
                   ELSE IF cls[2] \in (NftStarts \cup MtStarts) THEN "native_with_prefix" ELSE "plain_native"

\* assets whose holder count is wrong in the given ledgers (evaluated with the primed ghost state where noted)
BadNft == {m[1] : m \in {m \in minted : m[2] = "nft" /\ Cardinality(NftHolders(m[1])) + Cardinality(Flying(m[1], "nft")) # 1}}
BadMt  == {m[1] : m \in {m \in minted : m[2] = "mt" /\ SumLast(MtHeld(m[1])) + MtFlyingUnits(m[1]) # m[3]}}

\* what kind of step made an asset count go wrong: the action and the shape of the class of the packet involved
StepShape(e) == e.act \o ":" \o (IF e.act \in {"Recv", "Ack"} THEN ClassShape(PkOf(e.pkt.src, e.pkt.dst, e.pkt.seq).ocls)
                                  ELSE IF e.act \in {"AppSend", "Mint", "Xfer"} THEN ClassShape(e.cls) ELSE "")

\* C05, escrow clause: the units locked in escrow on chain x for (cls, id) equal the units of its vouchers one hop further
\* along every path, plus the units in flight away from x, plus the units in flight back towards x (evaluated on the
\* primed ledgers and the primed packet ghost)
PathOfVoucher(v) == Tail(v)                         \* <<"mt", c1, .., ck, base>>
UpChain(v) == LET p == PathOfVoucher(v) IN p[Len(p) - 2]
UpClass(v) == LET p == PathOfVoucher(v) IN
              IF Len(p) = 4 THEN <<"n", p[4]>> ELSE <<"v">> \o SubSeq(p, 1, Len(p) - 2) \o <<p[Len(p)]>>
EscrowUnits(led2, x, cls, id) == MtBal(led2[x], cls, id, "esc")
DownUnits(led2, pk2, x, cls, id) ==
    FoldSet(LAMBDA y, acc : acc + MtSup(led2[y], <<"v">> \o AwayNewPath("mt", x, y, Segs(cls)), id), 0, Chains \ {x})
  + FoldSet(LAMBDA q, acc : acc + q.amt, 0,
            {q \in pk2 : q.k = "mt" /\ q.st \in {"flight", "err"} /\ q.oid = id /\
                          ((q.s = x /\ q.away /\ q.ocls = cls) \/
                           (q.d = x /\ ~q.away /\ Len(q.ocls) >= 5 /\ IBCClass(BackNewPath(Segs(q.ocls))) = cls))})
EscrowCandidates(led2) ==
     UNION {{<<x, b[1], b[2]>> : b \in {b \in led2[x].mt : b[3] = "esc"}} : x \in Chains}
\cup UNION {{<<UpChain(z[1]), UpClass(z[1]), z[2]>> : z \in {z \in led2[y].sup : z[1][1] = "v" /\ Len(z[1]) >= 5 /\ z[3] > 0 /\ UpChain(z[1]) \in Chains}} : y \in Chains}
BadEscrow(led2, pk2) == {t \in EscrowCandidates(led2) : EscrowUnits(led2, t[1], t[2], t[3]) # DownUnits(led2, pk2, t[1], t[2], t[3])}

V_Apps(e, okR, c, L, L2, rec, pkt0) ==
  LET isPkt == e.act \in {"Recv", "Ack"}
      q     == IF isPkt THEN PkOf(e.pkt.src, e.pkt.dst, e.pkt.seq) ELSE PkOf("", "", 0)
      ranCb == rec.calls # <<>>
      released == {x \in L.nft : x[3] = "esc" /\ NftOwner(L2, x[1], x[2]) \notin {"esc", ""}}
      newNft   == {<<x[1], x[2]>> : x \in L2.nft} \ {<<x[1], x[2]>> : x \in L.nft}
      \* the packet's own application ran (a port edited by the relayer is C13's business)
      ownApp   == isPkt /\ e.pkt.port = e.pkt.data.k
      isRefund == e.act = "Ack" /\ okR /\ e.ack # "ok" /\ e.c = e.pkt.src /\ ranCb /\ ownApp
      isDeliv  == e.act = "Recv" /\ okR /\ ranCb /\ ownApp /\ \E w \in SetOf(rec.wack) : w[4] = "ok"
  IN
     \* C04b: escrow is released only to the returning voucher of the same asset, or by the refund of its own transfer
     {Lbl("C04", "escrow_released_to_wrong_claimant",
          e.act \o ":" \o (IF (isDeliv \/ isRefund) /\ q.a # TgOf(c, x[1], x[2]).a THEN "asset_mismatch:" \o ClassShape(q.ocls) ELSE "no_delivery")) :
        x \in {x \in released : ~((isDeliv /\ ~e.pkt.data.away /\ q.a = TgOf(c, x[1], x[2]).a) \/
                                   (isRefund /\ q.a = TgOf(c, x[1], x[2]).a))}}
\cup \* C04c: tokens come into existence only by a native mint, against a delivered packet, or by a refund
     {Lbl("C04", "token_created_without_delivered_packet", e.act) :
        t \in {t \in newNft : ~((e.act = "Mint" /\ okR /\ t[1][1] = "n") \/ isDeliv \/ isRefund)}}
\cup \* C06a: a genuine error acknowledgement presented to the source must be processed (the refund must be possible)
     If(e.act = "Ack" /\ ~okR /\ e.ack # "ok" /\ e.c = e.pkt.src /\ e.pkt \in sent /\ q.st = "err" /\ ownApp
          /\ AckResA(c, cs[c], e.pkt, e.ack, e.proof, "ok").ok,
        Lbl("C06", "refund_not_processed", ClassShape(q.ocls)))
\cup \* C06b: the refund gives back exactly what left, to the same account
     If(isRefund /\ q.k = "nft" /\ NftOwner(L2, q.ocls, q.oid) # q.snd, Lbl("C06", "refund_not_exact", "nft:" \o ClassShape(q.ocls)))
\cup If(isRefund /\ q.k = "mt" /\ MtBal(L2, q.ocls, q.oid, q.snd) # MtBal(L, q.ocls, q.oid, q.snd) + q.amt,
        Lbl("C06", "refund_not_exact", "mt:" \o ClassShape(q.ocls)))
\cup \* C06c: a return hop hands the receiver the token that was left behind on this chain
     If(isDeliv /\ q.ret /\ q.k = "nft" /\ e.pkt.data.rcv \in Users /\ NftOwner(L2, q.pcls, q.oid) # e.pkt.data.rcv,
        Lbl("C06", "return_did_not_restore_original", "nft:" \o ClassShape(q.pcls)))
\cup If(isDeliv /\ q.ret /\ q.k = "mt" /\ e.pkt.data.rcv \in Users
          /\ MtBal(L2, q.pcls, q.oid, e.pkt.data.rcv) # MtBal(L, q.pcls, q.oid, e.pkt.data.rcv) + q.amt,
        Lbl("C06", "return_did_not_restore_original", "mt:" \o ClassShape(q.pcls)))
\cup \* ... and the voucher that travelled back is gone on the chain it left (no owner, not even the escrow account)
     If(isDeliv /\ q.ret /\ q.k = "nft" /\ q.s \in Chains /\ NftOwner(ConvLed(rec.st[q.s]), q.ocls, q.oid) # ""
          /\ TgOf(q.s, q.ocls, q.oid).a = q.a,
        Lbl("C06", "returned_voucher_still_exists", "nft:" \o ClassShape(q.pcls)))
\cup \* a return hop that is answered with an error although the token left behind is still in escrow
     If(e.act = "Recv" /\ okR /\ ranCb /\ ownApp /\ q.ret /\ ~isDeliv /\ e.pkt.data.rcv \in Users /\ e.pkt \in sent /\ q.amt > 0,
        Lbl("C06", "return_refused", q.k \o ":" \o ClassShape(q.pcls)))
\cup \* C05: amounts are whole units (no wrap-around), supplies equal the sum of balances
     If(\E x \in L2.mt : x[4] < 0, Lbl("C05", "balance_not_whole_units", e.act))
\cup If(\E x \in L2.sup : x[3] < 0, Lbl("C05", "supply_not_whole_units", e.act))
\cup If(\E z \in L2.sup : SumLast({x \in L2.mt : x[1] = z[1] /\ x[2] = z[2]}) # z[3], Lbl("C05", "supply_differs_from_balances", e.act))
\cup \* C09 (token half): a successful application send consumes one sequence, leaves one commitment to its data,
     \* announces the packet, and locks or burns exactly the token sent
     (IF e.act = "AppSend" /\ okR THEN
        LET r == cs[c]  r2 == ConvChain(rec.st[c])  ann == SetOf(rec.sent) IN
           If(Cardinality(ann) # 1, Lbl("C09", "packet_not_announced", "app"))
      \cup If(pkt0.seq # NsR(r, c, e.dst) \/ NsR(r2, c, e.dst) # NsR(r, c, e.dst) + 1, Lbl("C09", "sequence_not_advanced_by_one", "app"))
      \cup If(r2.cm # r.cm \cup {<<c, e.dst, pkt0.seq, pkt0.data>>}, Lbl("C09", "not_exactly_one_commitment", "app"))
      \cup If((IF e.relay # "" THEN e.relay ELSE e.dst) \notin r.cl \/ e.dst = c, Lbl("C09", "invalid_send_accepted", "app"))
      \cup If(e.k = "nft" /\ NftOwner(L2, e.cls, e.id) \notin {"esc", ""}, Lbl("C09", "token_neither_locked_nor_burned", "nft"))
      \cup If(e.k = "nft" /\ NftOwner(L, e.cls, e.id) # e.u, Lbl("C09", "token_not_owned_by_sender", "nft"))
      \cup If(e.k = "mt" /\ MtBal(L2, e.cls, e.id, e.u) # MtBal(L, e.cls, e.id, e.u) - e.amt, Lbl("C09", "units_not_debited", "mt"))
      ELSE {})
\cup \* C19b: an error acknowledgement from the application leaves ownership, balances and supplies unchanged and the
     \* packet layer records exactly the receipt, the acknowledgement and the max-ack counter
     (IF e.act = "Recv" /\ okR /\ ranCb /\ ~isDeliv THEN
        LET r == cs[c]  r2 == ConvChain(rec.st[c])  p == e.pkt IN
           If(L2.nft # L.nft \/ L2.mt # L.mt \/ L2.sup # L.sup, Lbl("C19", "error_ack_changed_token_state", p.port))
      \cup If([r2 EXCEPT !.rc = r.rc, !.ak = r.ak, !.ma = r.ma] # r \/ r2.rc # r.rc \cup {<<p.src, p.dst, p.seq>>}
               \/ Cardinality(r2.ak \ r.ak) # 1, Lbl("C19", "error_ack_packet_state_not_exact", p.port))
      ELSE {})

ADivergence(e, okR, rec, st2, led2, pred) ==
  Divergence(e, okR, rec, st2, pred)
  \cup If(pred.ok = okR /\ pred.L # led2[e.c], [f |-> "ledger", d |-> e.act])
  \cup If(\E x \in Chains \ {e.c} : led2[x] # led[x], [f |-> "other_ledger_changed", d |-> e.act])
  \cup If(e.act = "AppSend" /\ okR /\ pred.ok /\ SetOf(rec.sent) # {<<pred.pkt.src, pred.pkt.dst, pred.pkt.seq, pred.pkt.relay, pred.pkt.port, pred.pkt.data>>},
          [f |-> "packet", d |-> e.k])

ATraceStep ==
  /\ l < Len(TraceLog)
  /\ l' = l + 1
  /\ LET rec == TraceLog[l + 1] IN
     IF rec.ev.act = "Reset"
     THEN AFresh(rec) /\ UNCHANGED <<bad, div>> /\ nsteps' = nsteps
     ELSE LET e    == AConvEv(rec.ev)
              okR  == rec.code = 0
              st2  == ConvState(rec.st)
              led2 == ConvLeds(rec.st)
              pred == AppStepRes(e)
              ann  == SetOf(rec.sent)
              \* the packet really produced by an application send (from its send_packet event)
              pkt0 == IF e.act = "AppSend" /\ okR /\ ann # {}
                      THEN LET s == CHOOSE s \in ann : TRUE IN
                           [src |-> s[1], dst |-> s[2], relay |-> s[4], port |-> s[5], seq |-> s[3], data |-> s[6]]
                      ELSE NoPkt
              calls == CallsOf(rec)
          IN /\ cs' = st2
             /\ led' = led2
             /\ ever' = [x \in Chains |-> EverOf(x, ever[x], st2[x])]
             /\ sent' = IF e.act = "AppSend" /\ okR /\ ann # {} THEN sent \cup {pkt0} ELSE sent
             /\ delivered' = IF e.act = "Recv" /\ okR THEN delivered \cup {[c |-> e.c, pkt |-> e.pkt, exp |-> RecvFrom(e.c, e.pkt) \in cs[e.c].ex]} ELSE delivered
             /\ acked' = IF e.act = "Ack" /\ okR THEN acked \cup {[c |-> e.c, pkt |-> e.pkt, ack |-> e.ack, exp |-> AckFrom(e.c, e.pkt) \in cs[e.c].ex]} ELSE acked
             /\ cb1' = cb1 \cup calls
             /\ cb2' = cb2 \cup (cb1 \cap calls)
             /\ frozen' = frozen
             /\ GhostNext(e, okR, led[e.c], led2[e.c], calls, SetOf(rec.wack), pkt0)
             /\ evlog' = evlog
             /\ dig' = rec.dig /\ app' = rec.app
             /\ nsteps' = nsteps + 1
             /\ bad' = bad \cup {[tr |-> rec.tr, i |-> rec.i, v |-> v] :
                                   v \in Violations(e, okR, rec, st2, pred) \cup V_Apps(e, okR, e.c, led[e.c], led2[e.c], rec, pkt0)}
                           \cup {[tr |-> rec.tr, i |-> rec.i, v |-> Lbl("C04", "asset_not_held_exactly_once",
                                     (IF Cardinality(NftHolders(a)') + Cardinality(Flying(a, "nft")') > 1 THEN "duplicated:" ELSE "lost:") \o StepShape(e))] : a \in BadNft' \ BadNft}
                           \cup {[tr |-> rec.tr, i |-> rec.i, v |-> Lbl("C05", "escrow_differs_from_vouchers_and_in_flight",
                                     (IF EscrowUnits(led2, t[1], t[2], t[3]) > DownUnits(led2, pk', t[1], t[2], t[3]) THEN "escrow_exceeds:" ELSE "escrow_short:") \o StepShape(e))] :
                                   t \in BadEscrow(led2, pk') \ BadEscrow(led, pk)}
                           \cup {[tr |-> rec.tr, i |-> rec.i, v |-> Lbl("C05", "units_not_conserved",
                                     (IF SumLast(MtHeld(a)') + MtFlyingUnits(a)' > (CHOOSE m \in minted' : m[1] = a)[3] THEN "created:" ELSE "destroyed:") \o StepShape(e))] : a \in BadMt' \ BadMt}
             /\ div' = div \cup {[tr |-> rec.tr, i |-> rec.i, v |-> v] : v \in ADivergence(e, okR, rec, st2, led2, pred)}

ATraceSpec == ATraceInit /\ [][ATraceStep]_<<tvars, led, tg, pk, minted>>
=============================================================================
