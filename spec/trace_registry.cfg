\* trace validation of the registry family
CONSTANTS
  Names = {"B","C","Z"}
SPECIFICATION TraceSpec
INVARIANT Done
CHECK_DEADLOCK FALSE
