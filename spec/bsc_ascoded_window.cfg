\* design check, as-coded model, validator set growing from 3 to 8 members (limit 2 -> 5): Inv_Decision is EXPECTED to fail -
\* for a while after the growth the store holds fewer entries than the floor(N/2) blocks the statement looks back
\* (same in upstream Parlia). The counterexample is the predicted finding.
CONSTANTS
  MaxV = 8
  F_NOWRAP = TRUE
  F_PRUNE_OLD = TRUE
  F_LENGTHS = TRUE
  F_FULLWINDOW = FALSE
  U <- U9
  Epochs = {5}
  StartMults = {2}
  InitSets <- InitSetsGrow
  AnnSets <- AnnSetsGrow
  Tier = 1
  Gls = {"norm"}
  MaxLen = 8
  MaxOddTimes = 0
  ValidPct = 60
  LOG = FALSE
  SimDepth = 0
INIT Init
NEXT Next
INVARIANTS Inv_Decision
CHECK_DEADLOCK FALSE
