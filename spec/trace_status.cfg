CONSTANTS
  Types = {"tm","bsc","eth"}
  Periods = {1}
  AgeOffsets = {1}
  BigAges = {}
  Subs = {0}
  SimDepth = 0
SPECIFICATION TSpec
INVARIANT Done
CHECK_DEADLOCK FALSE
