package harness

import (
	"crypto/sha256"
	"encoding/binary"
	"encoding/hex"
	"encoding/json"
	"fmt"
	"os"
	"sort"
	"strconv"
	"strings"

	storetypes "cosmossdk.io/store/types"
	abci "github.com/cometbft/cometbft/abci/types"
	sdk "github.com/cosmos/cosmos-sdk/types"

	packettypes "github.com/bianjieai/tibc-go/modules/tibc/core/04-packet/types"
	host "github.com/bianjieai/tibc-go/modules/tibc/core/24-host"
	routingtypes "github.com/bianjieai/tibc-go/modules/tibc/core/26-routing/types"
	"github.com/bianjieai/tibc-go/modules/tibc/core/exported"
	tibcmock "github.com/bianjieai/tibc-go/modules/tibc/testing/mock"
)

// Pkt is the abstract packet of the specification.
type Pkt struct {
	Src   string  `json:"src"`
	Dst   string  `json:"dst"`
	Relay string  `json:"relay"`
	Port  string  `json:"port"`
	Seq   uint64  `json:"seq"`
	Data  DataVal `json:"data"`
}

// AppData is the abstract NFT / MT packet data record of TibcApps.
type AppData struct {
	K    string   `json:"k"`   // nft | mt
	Cls  []string `json:"cls"` // full class path, '/'-separated segments, chain names abstracted
	ID   string   `json:"id"`
	Snd  string   `json:"snd"`
	Rcv  string   `json:"rcv"`
	Away bool     `json:"away"`
	Amt  int64    `json:"amt"` // units (nft: 1)
}

// DataVal is a packet payload: an opaque tag (core family) or an application data record.
type DataVal struct {
	Tag string
	Rec *AppData
}

func (d DataVal) MarshalJSON() ([]byte, error) {
	if d.Rec != nil {
		return json.Marshal(d.Rec)
	}
	return json.Marshal(d.Tag)
}

func (d *DataVal) UnmarshalJSON(b []byte) error {
	if len(b) > 0 && b[0] == '{' {
		d.Rec = &AppData{}
		return json.Unmarshal(b, d.Rec)
	}
	return json.Unmarshal(b, &d.Tag)
}

// CleanPkt is the abstract clean packet.
type CleanPkt struct {
	Src   string `json:"src"`
	Dst   string `json:"dst"`
	Relay string `json:"relay"`
	Seq   uint64 `json:"seq"`
}

// Event is one abstract step of a behaviour.
type Event struct {
	Act    string          `json:"act"`
	C      string          `json:"c"`
	Pkt    *Pkt            `json:"pkt,omitempty"`
	Cp     *CleanPkt       `json:"cp,omitempty"`
	Ack    string          `json:"ack,omitempty"`
	Proof  *Proof          `json:"proof,omitempty"`
	Rules  *[][]string     `json:"rules,omitempty"` // triples [src,dst,port], "*" = wildcard
	Signer int             `json:"signer,omitempty"`
	X      string          `json:"x,omitempty"`   // second chain argument (client name etc.)
	K      string          `json:"k,omitempty"`   // application: nft | mt
	Cls    []string        `json:"cls,omitempty"` // class on the chain: ["n"|"v", segments...]
	ID     string          `json:"id,omitempty"`
	U      string          `json:"u,omitempty"` // acting user
	To     string          `json:"to,omitempty"`
	Rcv    string          `json:"rcv,omitempty"`
	Dst    string          `json:"dst,omitempty"`
	Relay  string          `json:"relay,omitempty"`
	Amt    int64           `json:"amt,omitempty"`
	Tag    string          `json:"tag,omitempty"` // alteration family / free label from the generator
	Args   json.RawMessage `json:"args,omitempty"`
}

// Tags maps concrete byte strings to the abstract tags of the specification and back.
type Tags struct {
	data    map[string][]byte // tag -> bytes
	byHash  map[string]string // hex(sha256(bytes)) -> tag
	byBytes map[string]string // string(bytes) -> tag
}

func NewTags() *Tags {
	t := &Tags{data: map[string][]byte{}, byHash: map[string]string{}, byBytes: map[string]string{}}
	// d1, d3: not decodable by the NFT / MT applications (protobuf wire type 7 is illegal);
	// d2: a single unknown protobuf field, i.e. decodable as a packet whose fields are all blank
	t.Add("d1", []byte("\x07payload-one"))
	t.Add("d2", []byte("\xa0\x06\x01"))
	t.Add("d3", []byte("\x07payload-three"))
	t.Add("mock", tibcmock.MockAcknowledgement)
	t.Add("ok", packettypes.NewResultAcknowledgement([]byte{byte(1)}).GetBytes())
	t.Add("unauth", packettypes.NewErrorAcknowledgement("unauthorized").GetBytes())
	t.Add("errX", packettypes.NewErrorAcknowledgement("forged by the relayer").GetBytes())
	return t
}

func (t *Tags) Add(tag string, bz []byte) {
	h := sha256.Sum256(bz)
	t.data[tag] = bz
	t.byHash[hex.EncodeToString(h[:])] = tag
	t.byBytes[string(bz)] = tag
}

func (t *Tags) Bytes(tag string) []byte {
	if tag == "" {
		return []byte{}
	}
	if b, ok := t.data[tag]; ok {
		return b
	}
	// unknown tags are their own bytes
	return []byte("raw:" + tag)
}

// HashTag maps a stored hash to the tag of its pre-image ("?<hex8>" when unknown).
func (t *Tags) HashTag(h []byte) string {
	if tag, ok := t.byHash[hex.EncodeToString(h)]; ok {
		return tag
	}
	return "?" + hex.EncodeToString(h)[:8]
}

// BytesTag maps ack/data bytes to a tag. Every genuine application error acknowledgement is "err" (the
// specification does not predict error texts); the relay chain's "unauthorized" and the forged "errX" are fixed.
func (t *Tags) BytesTag(b []byte) string {
	if tag, ok := t.byBytes[string(b)]; ok {
		return tag
	}
	var ack packettypes.Acknowledgement
	if err := ack.Unmarshal(b); err == nil {
		if _, isErr := ack.Response.(*packettypes.Acknowledgement_Error); isErr {
			h := sha256.Sum256(b)
			t.byHash[hex.EncodeToString(h[:])] = "err"
			return "err"
		}
	}
	h := sha256.Sum256(b)
	return "?" + hex.EncodeToString(h[:])[:8]
}

// ChainState is the projection of one chain onto the variables of TibcCore.
type ChainState struct {
	Ns    [][]interface{} `json:"ns"`    // [s,d,next] with next > 1
	Cm    [][]interface{} `json:"cm"`    // [s,d,n,tag]
	Rc    [][]interface{} `json:"rc"`    // [s,d,n]
	Ak    [][]interface{} `json:"ak"`    // [s,d,n,tag]
	Cp    [][]interface{} `json:"cp"`    // [s,d,n]
	Ma    [][]interface{} `json:"ma"`    // [s,d,n]
	Cl    []string        `json:"cl"`    // chains this chain holds a client of
	Ex    []string        `json:"ex"`    // clients that report Expired at the next block time
	Rules [][]string      `json:"rules"` // routing rules as triples, chain and port names abstracted
	Nft   [][]interface{} `json:"nft"`   // [cls, id, owner]
	Mt    [][]interface{} `json:"mt"`    // [cls, id, owner, units]
	Sup   [][]interface{} `json:"sup"`   // [cls, id, units]
	Tr    [][]string      `json:"tr"`    // registered class traces (full paths)
	Den   [][]string      `json:"den"`   // NFT classes (denoms) that exist on the chain
	Q     *QueryView      `json:"q"`     // what the chain's gRPC query servers answer (harness/query.go)
}

func (r *Runner) splitChan(rest string) (string, string, bool) {
	parts := strings.Split(rest, "/")
	if len(parts) < 2 {
		return "", "", false
	}
	return r.N.A(parts[0]), r.N.A(parts[1]), true
}

// Project reads the real state of chain x.
func (r *Runner) Project(x string) ChainState {
	n := r.N
	c := n.Chains[x]
	ctx := c.GetContext()
	pk := c.App.TIBCKeeper.PacketKeeper
	cs := ChainState{Ns: [][]interface{}{}, Cm: [][]interface{}{}, Rc: [][]interface{}{}, Ak: [][]interface{}{},
		Cp: [][]interface{}{}, Ma: [][]interface{}{}, Cl: []string{}, Ex: []string{}, Rules: [][]string{}}
	for _, s := range pk.GetAllPacketSendSeqs(ctx) {
		if s.Sequence != 1 {
			cs.Ns = append(cs.Ns, []interface{}{n.A(s.SourceChain), n.A(s.DestinationChain), s.Sequence})
		}
	}
	for _, s := range pk.GetAllPacketCommitments(ctx) {
		cs.Cm = append(cs.Cm, []interface{}{n.A(s.SourceChain), n.A(s.DestinationChain), s.Sequence, r.hashVal(s.Data)})
	}
	for _, s := range pk.GetAllPacketReceipts(ctx) {
		cs.Rc = append(cs.Rc, []interface{}{n.A(s.SourceChain), n.A(s.DestinationChain), s.Sequence})
	}
	for _, s := range pk.GetAllPacketAcks(ctx) {
		cs.Ak = append(cs.Ak, []interface{}{n.A(s.SourceChain), n.A(s.DestinationChain), s.Sequence, r.Tags.HashTag(s.Data)})
	}
	st := n.tibcStore(x)
	it := storetypes.KVStorePrefixIterator(st, []byte(host.KeyCleanPacketCommitmentPrefix+"/"))
	for ; it.Valid(); it.Next() {
		s, d, ok := r.splitChan(strings.TrimPrefix(string(it.Key()), host.KeyCleanPacketCommitmentPrefix+"/"))
		if ok {
			cs.Cp = append(cs.Cp, []interface{}{s, d, binary.BigEndian.Uint64(it.Value())})
		}
	}
	it.Close()
	it = storetypes.KVStorePrefixIterator(st, []byte("maxAckSeq/"))
	for ; it.Valid(); it.Next() {
		s, d, ok := r.splitChan(strings.TrimPrefix(string(it.Key()), "maxAckSeq/"))
		if ok {
			if v := binary.BigEndian.Uint64(it.Value()); v != 0 {
				cs.Ma = append(cs.Ma, []interface{}{s, d, v})
			}
		}
	}
	it.Close()
	for _, y := range n.Names {
		if cst, found := c.App.TIBCKeeper.ClientKeeper.GetClientState(ctx, n.Real[y]); found {
			cs.Cl = append(cs.Cl, y)
			if cst.Status(ctx, c.App.TIBCKeeper.ClientKeeper.ClientStore(ctx, n.Real[y]), c.App.AppCodec()) == exported.Expired {
				cs.Ex = append(cs.Ex, y)
			}
		}
	}
	if rules, ok := c.App.TIBCKeeper.RoutingKeeper.GetRoutingRules(ctx); ok {
		for _, ru := range rules {
			cs.Rules = append(cs.Rules, r.absRule(ru))
		}
	}
	sort.Slice(cs.Rules, func(i, j int) bool { return strings.Join(cs.Rules[i], ",") < strings.Join(cs.Rules[j], ",") })
	cs.Nft, cs.Mt, cs.Sup, cs.Tr, cs.Den = [][]interface{}{}, [][]interface{}{}, [][]interface{}{}, [][]string{}, [][]string{}
	if r.Apps != nil {
		r.Apps.project(x, &cs)
	}
	cs.Q = r.QueryProject(x, &cs)
	return cs
}

func (r *Runner) absRule(ru string) []string {
	f := strings.Split(ru, ",")
	for i := range f {
		if a, ok := r.N.Abs[f[i]]; ok {
			f[i] = a
			continue
		}
		// near misses (see nearMiss): a chain name without its first / last character
		for a, x := range r.N.Real {
			if f[i] == x[1:] {
				f[i] = a + "<"
			} else if f[i] == x[:len(x)-1] {
				f[i] = a + ">"
			}
		}
	}
	if len(f) == 3 {
		f[2] = r.absPort(f[2])
		for _, a := range []string{"mock", "nft", "mt"} {
			if x := r.port(a); f[2] == x[1:] {
				f[2] = a + "<"
			} else if f[2] == x[:len(x)-1] {
				f[2] = a + ">"
			}
		}
	}
	return f
}

// nearMiss concretises the rule fields "X<" and "X>": the real spelling of X without its first / last character, a
// different identifier that only a sloppy comparison (prefix, suffix, substring, unanchored pattern) takes for X.
func nearMiss(g string, conv func(string) (string, bool)) (string, bool) {
	if len(g) < 2 || (g[len(g)-1] != '<' && g[len(g)-1] != '>') {
		return "", false
	}
	x, ok := conv(g[:len(g)-1])
	if !ok || len(x) < 2 {
		return "", false
	}
	if g[len(g)-1] == '<' {
		return x[1:], true
	}
	return x[:len(x)-1], true
}

func (r *Runner) realRule(f []string) string {
	g := append([]string{}, f...)
	for i := range g {
		if x, ok := r.N.Real[g[i]]; ok {
			g[i] = x
		} else if x, ok := nearMiss(g[i], func(a string) (string, bool) { x, ok := r.N.Real[a]; return x, ok }); ok && i < 2 {
			g[i] = x
		}
	}
	if len(g) == 3 {
		if x, ok := nearMiss(g[2], func(a string) (string, bool) { x := r.port(a); return x, x != a || a == "mock" }); ok {
			g[2] = x
		} else {
			g[2] = r.port(g[2])
		}
	}
	return strings.Join(g, ",")
}

// Callback is an application callback observed in a transaction's events.
type Callback struct {
	Kind string `json:"kind"` // recv | ack
	Port string `json:"port"`
	S    string `json:"s"`
	D    string `json:"d"`
	N    uint64 `json:"n"`
}

// Rec is one NDJSON line of a trace.
type Rec struct {
	Tr    int                    `json:"tr"`
	I     int                    `json:"i"`
	Ev    *Event                 `json:"ev"`
	Code  uint32                 `json:"code"`
	Log   string                 `json:"log,omitempty"`
	Calls []interface{}          `json:"calls"` // application callbacks run in this step: [kind,port,s,d,n,relay,datatag,acktag,err]
	Wack  []interface{}          `json:"wack"`  // acknowledgements written in this step: [s,d,n,tag]
	Sent  []interface{}          `json:"sent"`  // send_packet events: [s,d,n,relay,port,datatag]
	Evs   []string               `json:"evs"`   // TIBC event types of the transaction, in order
	St    map[string]ChainState  `json:"st"`    // projection of every chain
	Dig   map[string]string      `json:"dig"`   // packet-store digest per chain
	App   map[string]string      `json:"app"`   // nft+mt store digest per chain
	Diff  []string               `json:"diff"`  // ExportImport: classes of store keys that differ on the re-imported chain
	Ah    map[string]string      `json:"ah"`    // application hash of every chain after the step
	Rh    string                 `json:"rh"`    // fingerprint of the transaction result (code, log, gas, events)
	Info  map[string]interface{} `json:"info,omitempty"`
	Extra map[string]interface{} `json:"x,omitempty"`
}

func (r *Runner) pkt(p *Pkt) packettypes.Packet {
	return packettypes.NewPacket(r.dataBytes(p), p.Seq, r.N.R(p.Src), r.N.R(p.Dst), r.N.R(p.Relay), r.port(p.Port))
}

func (r *Runner) port(p string) string {
	switch p {
	case "mock":
		return tibcmock.ModuleName
	case "nft":
		return "NFT"
	case "mt":
		return "MT"
	}
	return p
}

func (r *Runner) absPort(p string) string {
	switch p {
	case tibcmock.ModuleName:
		return "mock"
	case "NFT":
		return "nft"
	case "MT":
		return "mt"
	}
	return p
}

// tibc event scanning ------------------------------------------------------------------------------

func attr(e abci.Event, k string) string {
	for _, a := range e.Attributes {
		if a.Key == k {
			return a.Value
		}
	}
	return ""
}

func (r *Runner) scanEvents(res *abci.ExecTxResult, rec *Rec) {
	rec.Wack = []interface{}{}
	rec.Sent = []interface{}{}
	rec.Evs = []string{}
	if res == nil {
		return
	}
	for _, e := range res.Events {
		switch e.Type {
		case packettypes.EventTypeSendPacket, packettypes.EventTypeRecvPacket, packettypes.EventTypeWriteAck,
			packettypes.EventTypeAcknowledgePacket, packettypes.EventTypeSendCleanPacket, packettypes.EventTypeRecvCleanPacket,
			"non_fungible_token_packet", "multi_token_packet", "tibc_nft_transfer", "tibc_mt_transfer":
			rec.Evs = append(rec.Evs, e.Type)
		}
		switch e.Type {
		case packettypes.EventTypeWriteAck:
			n, _ := strconv.ParseUint(attr(e, packettypes.AttributeKeySequence), 10, 64)
			rec.Wack = append(rec.Wack, []interface{}{r.N.A(attr(e, packettypes.AttributeKeySrcChain)), r.N.A(attr(e, packettypes.AttributeKeyDstChain)), n,
				r.Tags.BytesTag([]byte(attr(e, packettypes.AttributeKeyAck)))})
			if r.ackBytes == nil {
				r.ackBytes = map[string][]byte{}
			}
			if rec.Ev != nil {
				r.ackBytes[ackKey(rec.Ev.C, r.N.A(attr(e, packettypes.AttributeKeySrcChain)), r.N.A(attr(e, packettypes.AttributeKeyDstChain)), n)] = []byte(attr(e, packettypes.AttributeKeyAck))
			}
		case packettypes.EventTypeSendPacket:
			n, _ := strconv.ParseUint(attr(e, packettypes.AttributeKeySequence), 10, 64)
			if r.Apps != nil {
				r.Apps.register(r.N.A(attr(e, packettypes.AttributeKeySrcChain)), r.N.A(attr(e, packettypes.AttributeKeyDstChain)), n,
					r.N.A(attr(e, packettypes.AttributeKeyRelayChain)), r.absPort(attr(e, packettypes.AttributeKeyPort)), []byte(attr(e, packettypes.AttributeKeyData)))
			}
			rec.Sent = append(rec.Sent, []interface{}{r.N.A(attr(e, packettypes.AttributeKeySrcChain)), r.N.A(attr(e, packettypes.AttributeKeyDstChain)), n,
				r.N.A(attr(e, packettypes.AttributeKeyRelayChain)), r.absPort(attr(e, packettypes.AttributeKeyPort)),
				r.dataVal([]byte(attr(e, packettypes.AttributeKeyData)), r.absPort(attr(e, packettypes.AttributeKeyPort)))})
		}
	}
}

// Runner executes behaviours of one family on a network.
type Runner struct {
	N     *Net
	Tags  *Tags
	Out   func(*Rec)
	tr    int
	i     int
	calls []interface{}
	Apps  *Apps
	diff  []string
	// acknowledgement bytes written per chain and packet key (for "err" acks whose text the model does not predict)
	ackBytes map[string][]byte
}

// dataBytes concretises a payload.
func (r *Runner) dataBytes(p *Pkt) []byte {
	if p.Data.Rec != nil && r.Apps != nil {
		return r.Apps.encode(p.Data.Rec, p.Src, p.Dst, p.Seq)
	}
	return r.Tags.Bytes(p.Data.Tag)
}

// dataVal abstracts payload bytes: application data record if the port's application can decode them, else a tag.
func (r *Runner) dataVal(b []byte, port string) interface{} {
	if r.Apps != nil {
		if rec := r.Apps.decode(b, port); rec != nil {
			return rec
		}
	}
	return r.Tags.BytesTag(b)
}

// hashVal abstracts a stored commitment hash.
func (r *Runner) hashVal(h []byte) interface{} {
	if r.Apps != nil {
		if rec, ok := r.Apps.byHash[hex.EncodeToString(h)]; ok {
			return rec
		}
	}
	return r.Tags.HashTag(h)
}

func ackKey(chain, s, d string, n uint64) string { return fmt.Sprintf("%s|%s|%s|%d", chain, s, d, n) }

// ackFor returns the acknowledgement bytes for tag; for application error acks the bytes really written for this
// packet on the proving chain (or anywhere) are used.
func (r *Runner) ackFor(tag string, p *Pkt, proofChain string) []byte {
	if tag == "err" {
		// only bytes that really are an application error acknowledgement (not the relay chain's "unauthorized")
		if b, ok := r.ackBytes[ackKey(proofChain, p.Src, p.Dst, p.Seq)]; ok && r.Tags.BytesTag(b) == "err" {
			return b
		}
		for _, x := range r.N.Names {
			if b, ok := r.ackBytes[ackKey(x, p.Src, p.Dst, p.Seq)]; ok && r.Tags.BytesTag(b) == "err" {
				return b
			}
		}
		return packettypes.NewErrorAcknowledgement("some application error").GetBytes()
	}
	return r.Tags.Bytes(tag)
}

// InstallHook makes the router report application callbacks to this runner.
func (r *Runner) InstallHook() {
	routingtypes.VerifCallbackHook = func(kind string, p packettypes.Packet, ack []byte, err error) {
		e := ""
		if err != nil {
			e = "err"
		}
		at := ""
		if ack != nil {
			at = r.Tags.BytesTag(ack)
		}
		r.calls = append(r.calls, []interface{}{kind, r.absPort(p.Port), r.N.A(p.SourceChain), r.N.A(p.DestinationChain), p.Sequence,
			r.N.A(p.RelayChain), r.dataVal(p.Data, r.absPort(p.Port)), at, e})
	}
}

func (r *Runner) snapshot(rec *Rec) {
	rec.St = map[string]ChainState{}
	rec.Dig = map[string]string{}
	rec.App = map[string]string{}
	for _, x := range r.N.Names {
		rec.St[x] = r.Project(x)
		rec.Dig[x] = r.N.PacketDigest(x)
		rec.App[x] = r.N.StoreDigest(x, "nft", "mt", "NFT", "MT")
	}
}

func (r *Runner) emit(ev *Event, res *abci.ExecTxResult, info map[string]interface{}) *Rec {
	// make the new state provable everywhere before anything else happens
	for _, x := range r.N.Names {
		if r.N.dirty[x] {
			r.N.Settle(x)
		}
	}
	rec := &Rec{Tr: r.tr, I: r.i, Ev: ev, Info: info, Calls: r.calls}
	if rec.Calls == nil || (res != nil && res.Code != 0) {
		// callbacks of a failed (reverted) transaction had no effect
		rec.Calls = []interface{}{}
	}
	r.calls = nil
	r.i++
	if res != nil {
		rec.Code = res.Code
		if res.Code != 0 {
			rec.Log = res.Log
			if len(rec.Log) > 300 {
				rec.Log = rec.Log[:300]
			}
		}
	}
	rec.Rh = resultHash(res)
	if os.Getenv("VERIF_DUMP_RES") != "" && res != nil {
		if rec.Info == nil {
			rec.Info = map[string]interface{}{}
		}
		bz, _ := json.Marshal(res)
		rec.Info["res"] = string(bz)
	}
	rec.Diff = r.diff
	if rec.Diff == nil {
		rec.Diff = []string{}
	}
	r.diff = nil
	r.scanEvents(res, rec)
	r.snapshot(rec)
	rec.Ah = map[string]string{}
	for _, x := range r.N.Names {
		rec.Ah[x] = hex.EncodeToString(r.N.Chains[x].App.LastCommitID().Hash)[:16]
	}
	r.Out(rec)
	return rec
}

// keeperResult wraps the outcome of a direct keeper call into a tx-like result.
func keeperResult(err error, events sdk.Events) *abci.ExecTxResult {
	res := &abci.ExecTxResult{}
	if err != nil {
		res.Code = 1
		res.Log = err.Error()
		return res
	}
	res.Events = events.ToABCIEvents()
	return res
}

// StepCore executes one core-family event.
func (r *Runner) StepCore(ev *Event) *Rec {
	n := r.N
	switch ev.Act {
	case "Reset":
		return r.emit(ev, nil, nil)
	case "Send":
		// mock-port send: direct keeper call on a branched context, written only on success — this is what
		// an application's message handler does inside a transaction.
		c := n.Chains[ev.C]
		p := r.pkt(ev.Pkt)
		ctx := c.GetContext()
		cctx, write := ctx.CacheContext()
		cctx = cctx.WithEventManager(sdk.NewEventManager())
		err := c.App.TIBCKeeper.PacketKeeper.SendPacket(cctx, p)
		if err == nil {
			write()
		}
		res := keeperResult(err, cctx.EventManager().Events())
		n.Coord.CommitBlock(c)
		n.dirty[ev.C] = true
		return r.emit(ev, res, nil)
	case "Recv":
		if r.Apps != nil && r.Apps.Honest(ev) {
			ev.Tag = "gen:as_really_sent"
		}
		p := r.pkt(ev.Pkt)
		proof, ph, info := n.MakeProof(*ev.Proof, packettypes.CommitPacket(p))
		msg := packettypes.NewMsgRecvPacket(p, proof, ph, n.Chains[ev.C].SenderAccounts[ev.Signer].SenderAccount.GetAddress())
		res := n.Deliver(ev.C, ev.Signer, msg)
		return r.emit(ev, res, info)
	case "Ack":
		if r.Apps != nil && r.Apps.Honest(ev) {
			ev.Tag = "gen:as_really_sent"
		}
		p := r.pkt(ev.Pkt)
		ack := r.ackFor(ev.Ack, ev.Pkt, ev.Proof.Chain)
		proof, ph, info := n.MakeProof(*ev.Proof, packettypes.CommitAcknowledgement(ack))
		msg := packettypes.NewMsgAcknowledgement(p, ack, proof, ph, n.Chains[ev.C].SenderAccounts[ev.Signer].SenderAccount.GetAddress())
		res := n.Deliver(ev.C, ev.Signer, msg)
		return r.emit(ev, res, info)
	case "Clean":
		cp := packettypes.NewCleanPacket(ev.Cp.Seq, n.R(ev.Cp.Src), n.R(ev.Cp.Dst), n.R(ev.Cp.Relay))
		msg := packettypes.NewMsgCleanPacket(cp, n.Chains[ev.C].SenderAccounts[ev.Signer].SenderAccount.GetAddress())
		res := n.Deliver(ev.C, ev.Signer, msg)
		return r.emit(ev, res, nil)
	case "RecvClean":
		cp := packettypes.NewCleanPacket(ev.Cp.Seq, n.R(ev.Cp.Src), n.R(ev.Cp.Dst), n.R(ev.Cp.Relay))
		proof, ph, info := n.MakeProof(*ev.Proof, sdk.Uint64ToBigEndian(ev.Cp.Seq))
		msg := packettypes.NewMsgRecvCleanPacket(cp, proof, ph, n.Chains[ev.C].SenderAccounts[ev.Signer].SenderAccount.GetAddress())
		res := n.Deliver(ev.C, ev.Signer, msg)
		return r.emit(ev, res, info)
	case "SetRules":
		c := n.Chains[ev.C]
		rules := []string{}
		if ev.Rules != nil {
			for _, ru := range *ev.Rules {
				rules = append(rules, r.realRule(ru))
			}
		} else {
			e := [][]string{}
			ev.Rules = &e
		}
		ctx := c.GetContext()
		cctx, write := ctx.CacheContext()
		err := c.App.TIBCKeeper.RoutingKeeper.SetRoutingRules(cctx, rules)
		if err == nil {
			write()
		}
		n.Coord.CommitBlock(c)
		n.dirty[ev.C] = true
		return r.emit(ev, keeperResult(err, nil), nil)
	}
	switch ev.Act {
	case "Expire":
		// the client of ev.X on ev.C has a short trusting period (Net.Short): let it run out
		n.ExpireClients(n.ShortPeriod * 2)
		return r.emit(ev, &abci.ExecTxResult{}, nil)
	case "ExportImport":
		d, info := n.ExportImport(ev.C)
		r.diff = d
		return r.emit(ev, &abci.ExecTxResult{}, info)
	case "RegisterRelayer":
		// governance registers relayers for chain name ev.X on ev.C (the name need not have a client)
		c := n.Chains[ev.C]
		ctx := c.GetContext()
		c.App.TIBCKeeper.ClientKeeper.RegisterRelayers(ctx, n.R(ev.X), []string{c.SenderAccounts[0].SenderAccount.GetAddress().String(), c.SenderAccounts[5].SenderAccount.GetAddress().String()})
		n.Coord.CommitBlock(c)
		n.dirty[ev.C] = true
		return r.emit(ev, &abci.ExecTxResult{}, nil)
	case "AdvanceTo":
		n.AdvanceTo(ev.C, uint64(ev.Amt))
		return r.emit(ev, &abci.ExecTxResult{}, nil)
	}
	n.T.Fatalf("unknown core event %q", ev.Act)
	return nil
}

var _ exported.PacketI = packettypes.Packet{}
var _ = fmt.Sprintf
