------------------------------- MODULE MCApps -------------------------------
(* Constant definitions for the TibcApps configurations. *)
EXTENDS TibcAppsMC

Links3 == [c \in Chains |-> Chains \ {c}]
RuleSetsApps == { {}, {<<"*", "*", "*">>}, {<<"A", "*", "nft">>}, {<<"*", "*", "mt">>} }
RuleSetsAppsSmall == { {}, {<<"*", "*", "*">>} }
NftNativesGen == { <<"n", "kitty">>, <<"n", "nftkit">>, <<"n", "art", "cats">>, <<"n", "nft", "A", "C", "kitty">>, <<"n", "nft", "A", "B", "kitty">> }
NftNativesPlain == { <<"n", "kitty">>, <<"n", "nftkit">> }
NoDataRec == [k |-> "", cls |-> <<>>, id |-> "", snd |-> "", rcv |-> "", away |-> TRUE, amt |-> 0]
NoPairs == {}
MtNativesGen == { <<"n", "m1">> }
=============================================================================
