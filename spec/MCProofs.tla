------------------------------ MODULE MCProofs ------------------------------
(* Constant definitions for the Proofs configurations (cfg files cannot hold tuples, records or functions). *)
EXTENDS ProofsMC

\* key universe: two keys per kind; (B,A,...) is the same key with source and destination exchanged
KeysU6 == {<<"commit", "A", "B", 1>>, <<"commit", "A", "B", 2>>,
           <<"ack", "A", "B", 1>>, <<"ack", "B", "A", 1>>,
           <<"clean", "A", "B", 0>>, <<"clean", "B", "A", 0>>}

(* Store histories.  Value indices: 1 = an ordinary 32-byte hash, 2 = a hash with leading zero bytes (the
   Ethereum-style clients see it RLP-trimmed), 3 = value 1 with its LAST byte changed (prefix twin).  For clean the
   index is the clean sequence itself.
   A: a commitment appears, is acknowledged elsewhere and deleted; the clean point moves 1 -> 2; two keys hold the
      same value.
   B: a value changes under its key (3 -> 1); another key holds the value the first one gets later; a key exists
      only with source/destination exchanged; height 3 is almost empty. *)
HistA == [name |-> "A", S |-> <<
  {<<"commit", "A", "B", 1, 1>>, <<"ack", "A", "B", 1, 2>>},
  {<<"commit", "A", "B", 1, 1>>, <<"commit", "A", "B", 2, 2>>, <<"ack", "A", "B", 1, 2>>, <<"clean", "A", "B", 0, 1>>},
  {<<"commit", "A", "B", 2, 2>>, <<"ack", "A", "B", 1, 2>>, <<"ack", "B", "A", 1, 1>>, <<"clean", "A", "B", 0, 2>>,
   <<"clean", "B", "A", 0, 1>>} >>]
HistB == [name |-> "B", S |-> <<
  {<<"commit", "A", "B", 1, 3>>, <<"commit", "A", "B", 2, 1>>, <<"ack", "B", "A", 1, 2>>, <<"clean", "B", "A", 0, 2>>},
  {<<"commit", "A", "B", 1, 1>>, <<"commit", "A", "B", 2, 1>>, <<"ack", "A", "B", 1, 3>>, <<"ack", "B", "A", 1, 2>>,
   <<"clean", "B", "A", 0, 3>>},
  {<<"ack", "A", "B", 1, 3>>, <<"clean", "A", "B", 0, 3>>} >>]

HistsAB == {HistA, HistB}
HistsA == {HistA}

\* consensus states recorded at every height / not at height 2
RootSets2 == {{1, 2, 3}, {1, 3}}
=============================================================================
