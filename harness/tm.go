package harness

// Family "tm" (property C07): a 07-tendermint client on a real simapp chain is created with the
// parameters of the behaviour and is then fed REAL signed headers built from abstract descriptors.
// This file contains no oracle: it concretises events, delivers real transactions and logs the
// result code plus the projection of the real client store. spec/TraceTm.tla decides.

import (
	"encoding/hex"
	"encoding/json"
	"fmt"
	"sort"
	"testing"
	"time"

	storetypes "cosmossdk.io/store/types"
	"github.com/cometbft/cometbft/crypto/tmhash"
	cmtproto "github.com/cometbft/cometbft/proto/tendermint/types"
	cmtprotoversion "github.com/cometbft/cometbft/proto/tendermint/version"
	cmttypes "github.com/cometbft/cometbft/types"
	cmtversion "github.com/cometbft/cometbft/version"
	"github.com/cosmos/cosmos-sdk/crypto/keys/ed25519"

	clienttypes "github.com/bianjieai/tibc-go/modules/tibc/core/02-client/types"
	commitmenttypes "github.com/bianjieai/tibc-go/modules/tibc/core/23-commitment/types"
	host "github.com/bianjieai/tibc-go/modules/tibc/core/24-host"
	"github.com/bianjieai/tibc-go/modules/tibc/core/exported"
	ibctmtypes "github.com/bianjieai/tibc-go/modules/tibc/light-clients/07-tendermint/types"
	tibctesting "github.com/bianjieai/tibc-go/modules/tibc/testing"
	tibcmock "github.com/bianjieai/tibc-go/modules/tibc/testing/mock"
)

const (
	tmClientName = "tmcounterparty" // chain name under which the client is stored on the host chain
	tmChainBase  = "tmchain"        // the counterparty's chain id is tmchain-<revision>
)

// tick 0 of every behaviour; later than anything the chain setup produces
var tmT0 = time.Date(2020, 1, 2, 12, 0, 0, 0, time.UTC)

var tmUnits = map[string]time.Duration{"ns": time.Nanosecond, "s": time.Second, "h": time.Hour}

type tmPar struct {
	Num    int64 `json:"num"`
	Den    int64 `json:"den"`
	Period int64 `json:"period"`
	Drift  int64 `json:"drift"`
	Rev    int64 `json:"rev"`
}

type tmHdr struct {
	Height      int64    `json:"height"`
	Rev         int64    `json:"rev"`
	Time        int64    `json:"time"`
	Root        int64    `json:"root"`
	Vals        string   `json:"vals"`
	NextVals    string   `json:"nextVals"`
	Signers     []string `json:"signers"`
	Trev        int64    `json:"trev"`
	Trusted     int64    `json:"trusted"`
	TrustedVals string   `json:"trustedVals"`
}

type tmEvent struct {
	Act string `json:"act"`
	Tag string `json:"tag"`
	// Create
	Par      *tmPar                       `json:"par"`
	Height   int64                        `json:"height"`
	Time     int64                        `json:"time"`
	Root     int64                        `json:"root"`
	NextVals string                       `json:"nextVals"`
	Now      int64                        `json:"now"`
	Unit     string                       `json:"unit"`
	Sets     map[string][]json.RawMessage `json:"sets"`
	// Tick
	Dt int64 `json:"dt"`
	// Update
	Hdr *tmHdr `json:"hdr"`
}

type tmState struct {
	Par    tmPar           `json:"par"`
	Cons   [][]interface{} `json:"cons"`   // [rev, height, time tick, root id, next validator set id]
	Latest [2]int64        `json:"latest"` // [rev, height]; [0,0] = no client
	Now    int64           `json:"now"`
}

type tmRec struct {
	Tr     int                    `json:"tr"`
	I      int                    `json:"i"`
	Ev     json.RawMessage        `json:"ev"`
	Info   map[string]interface{} `json:"info"`
	Code   uint32                 `json:"code"`
	Cs     string                 `json:"cs"` // codespace/code of a failed transaction
	Log    string                 `json:"log"`
	St     tmState                `json:"st"`
	Status string                 `json:"status"` // ClientState.Status at the current block time
	Iter   [][2]int64             `json:"iter"`   // heights that have an iteration key
	Cdig   string                 `json:"cdig"`   // digest of the whole client sub-store (bytes)
	Pdig   string                 `json:"pdig"`   // digest of the rest of the tibc store
}

type tmValPow struct {
	Name  string
	Power int64
}

type tmRunner struct {
	t     *testing.T
	nt    *Net
	chain *tibctesting.TestChain
	unit  time.Duration
	now   int64
	keys  map[string]tibcmock.PV // abstract validator -> key
	names map[string]string      // validator address -> abstract validator
	defs  map[string][]tmValPow  // validator set id -> members
	bySum map[string]string      // hex(validator set hash) -> id
	roots map[string]int64       // hex(app hash) -> id
	tr    int
	i     int
	out   func(interface{})
}

func init() { Families["tm"] = runTm }

func runTm(t *testing.T, inp *Input, tr int, beh []json.RawMessage, out func(interface{})) {
	nt := NewNet(t, 1, nil)
	r := &tmRunner{t: t, nt: nt, chain: nt.Chains["A"], unit: time.Second, keys: map[string]tibcmock.PV{},
		names: map[string]string{}, defs: map[string][]tmValPow{}, bySum: map[string]string{}, roots: map[string]int64{},
		tr: tr, out: out}
	for _, v := range []string{"v1", "v2", "v3", "v4"} {
		pv := tibcmock.PV{PrivKey: ed25519.GenPrivKeyFromSecret([]byte("verif-tm-" + v))}
		pk, err := pv.GetPubKey()
		if err != nil {
			t.Fatal(err)
		}
		r.keys[v] = pv
		r.names[pk.Address().String()] = v
	}
	for id := int64(0); id < 16; id++ {
		r.roots[hex.EncodeToString(r.root(id))] = id
	}
	r.setNow(0)
	r.emit(json.RawMessage(`{"act":"Reset"}`), nil, 0, "", "")
	for _, raw := range beh {
		var ev tmEvent
		if err := json.Unmarshal(raw, &ev); err != nil {
			t.Fatalf("bad event %s: %v", raw, err)
		}
		r.step(raw, &ev)
	}
}

// ---------------------------------------------------------------------------------------------
// concretisation

func (r *tmRunner) T(tick int64) time.Time { return tmT0.Add(time.Duration(tick) * r.unit).UTC() }

// tick maps a real timestamp back onto the grid (-1: off the grid)
func (r *tmRunner) tick(ts time.Time) int64 {
	d := ts.Sub(tmT0)
	if d < 0 || d%r.unit != 0 {
		return -1
	}
	return int64(d / r.unit)
}

func (r *tmRunner) dur(d time.Duration) int64 {
	if d < 0 || d%r.unit != 0 {
		return -1
	}
	return int64(d / r.unit)
}

func (r *tmRunner) root(id int64) []byte {
	return tmhash.Sum([]byte(fmt.Sprintf("verif-tm-root-%d", id)))
}

func (r *tmRunner) chainID(rev int64) string { return fmt.Sprintf("%s-%d", tmChainBase, rev) }

// setNow puts the host chain's clock (the time of the next block) on the given tick.
func (r *tmRunner) setNow(tick int64) {
	r.now = tick
	r.nt.Coord.CurrentTime = r.T(tick)
	r.nt.Coord.UpdateTime()
}

func (r *tmRunner) valset(id string) *cmttypes.ValidatorSet {
	def, ok := r.defs[id]
	if !ok {
		r.t.Fatalf("unknown validator set %q", id)
	}
	vals := make([]*cmttypes.Validator, 0, len(def))
	for _, m := range def {
		pk, err := r.keys[m.Name].GetPubKey()
		if err != nil {
			r.t.Fatal(err)
		}
		vals = append(vals, cmttypes.NewValidator(pk, m.Power))
	}
	return cmttypes.NewValidatorSet(vals)
}

func (r *tmRunner) loadSets(sets map[string][]json.RawMessage) {
	for id, members := range sets {
		var def []tmValPow
		for _, m := range members {
			var pair []json.RawMessage
			var vp tmValPow
			if err := json.Unmarshal(m, &pair); err != nil || len(pair) != 2 {
				r.t.Fatalf("bad validator set member %s", m)
			}
			if err := json.Unmarshal(pair[0], &vp.Name); err != nil {
				r.t.Fatal(err)
			}
			if err := json.Unmarshal(pair[1], &vp.Power); err != nil {
				r.t.Fatal(err)
			}
			if _, ok := r.keys[vp.Name]; !ok {
				r.t.Fatalf("unknown validator %q", vp.Name)
			}
			def = append(def, vp)
		}
		r.defs[id] = def
		r.bySum[hex.EncodeToString(r.valset(id).Hash())] = id
	}
}

// header builds the real signed header of a descriptor: a real cometbft header, and a commit in which
// exactly the chosen validators have signed a precommit for it; all others are absent.
func (r *tmRunner) header(h *tmHdr) *ibctmtypes.Header {
	chainID := r.chainID(h.Rev)
	vals, next, trusted := r.valset(h.Vals), r.valset(h.NextVals), r.valset(h.TrustedVals)
	ts := r.T(h.Time)
	hdr := cmttypes.Header{
		Version:            cmtprotoversion.Consensus{Block: cmtversion.BlockProtocol, App: 2},
		ChainID:            chainID,
		Height:             h.Height,
		Time:               ts,
		LastBlockID:        tibctesting.MakeBlockID(make([]byte, tmhash.Size), 10_000, make([]byte, tmhash.Size)),
		LastCommitHash:     tmhash.Sum([]byte("last_commit_hash")),
		DataHash:           tmhash.Sum([]byte("data_hash")),
		ValidatorsHash:     vals.Hash(),
		NextValidatorsHash: next.Hash(),
		ConsensusHash:      tmhash.Sum([]byte("consensus_hash")),
		AppHash:            r.root(h.Root),
		LastResultsHash:    tmhash.Sum([]byte("last_results_hash")),
		EvidenceHash:       tmhash.Sum([]byte("evidence_hash")),
		ProposerAddress:    vals.Proposer.Address,
	}
	blockID := tibctesting.MakeBlockID(hdr.Hash(), 3, tmhash.Sum([]byte("part_set")))
	signs := map[string]bool{}
	for _, s := range h.Signers {
		signs[s] = true
	}
	sigs := make([]cmttypes.CommitSig, len(vals.Validators))
	signed := 0
	for i, v := range vals.Validators {
		name := r.names[v.Address.String()]
		if !signs[name] {
			sigs[i] = cmttypes.NewCommitSigAbsent()
			continue
		}
		vote := &cmttypes.Vote{Type: cmtproto.PrecommitType, Height: h.Height, Round: 1, BlockID: blockID, Timestamp: ts,
			ValidatorAddress: v.Address, ValidatorIndex: int32(i)}
		vp := vote.ToProto()
		if err := r.keys[name].SignVote(chainID, vp); err != nil {
			r.t.Fatal(err)
		}
		sigs[i] = cmttypes.CommitSig{BlockIDFlag: cmttypes.BlockIDFlagCommit, ValidatorAddress: v.Address, Timestamp: ts, Signature: vp.Signature}
		signed++
	}
	if signed != len(signs) {
		r.t.Fatalf("signers %v are not all members of %s", h.Signers, h.Vals)
	}
	commit := &cmttypes.Commit{Height: h.Height, Round: 1, BlockID: blockID, Signatures: sigs}
	valsP, err := vals.ToProto()
	if err != nil {
		r.t.Fatal(err)
	}
	trustedP, err := trusted.ToProto()
	if err != nil {
		r.t.Fatal(err)
	}
	return &ibctmtypes.Header{
		SignedHeader:      &cmtproto.SignedHeader{Header: hdr.ToProto(), Commit: commit.ToProto()},
		ValidatorSet:      valsP,
		TrustedHeight:     clienttypes.NewHeight(uint64(h.Trev), uint64(h.Trusted)),
		TrustedValidators: trustedP,
	}
}

// ---------------------------------------------------------------------------------------------
// execution

func (r *tmRunner) step(raw json.RawMessage, ev *tmEvent) {
	c := r.chain
	ck := c.App.TIBCKeeper.ClientKeeper
	info := map[string]interface{}{}
	switch ev.Act {
	case "Create":
		u, ok := tmUnits[ev.Unit]
		if !ok || ev.Par == nil {
			r.t.Fatalf("bad Create event %s", raw)
		}
		r.unit = u
		r.loadSets(ev.Sets)
		r.setNow(ev.Now)
		ctx := c.GetContext()
		ck.RegisterRelayers(ctx, tmClientName, []string{c.SenderAccount.GetAddress().String()})
		period := time.Duration(ev.Par.Period) * u
		cs := ibctmtypes.NewClientState(r.chainID(ev.Par.Rev),
			ibctmtypes.Fraction{Numerator: uint64(ev.Par.Num), Denominator: uint64(ev.Par.Den)},
			period, 3*period, time.Duration(ev.Par.Drift)*u,
			clienttypes.NewHeight(uint64(ev.Par.Rev), uint64(ev.Height)), commitmenttypes.GetSDKSpecs(), tibctesting.Prefix, 0)
		cons := ibctmtypes.NewConsensusState(r.T(ev.Time), commitmenttypes.NewMerkleRoot(r.root(ev.Root)), r.valset(ev.NextVals).Hash())
		code, log := uint32(0), ""
		if err := ck.CreateClient(ctx, tmClientName, cs, cons); err != nil {
			code, log = 1, err.Error()
		}
		c.NextBlock()
		r.setNow(ev.Now)
		info["chain_id"] = cs.ChainId
		info["unit_ns"] = int64(u)
		r.emit(raw, info, code, "", log)
	case "Tick":
		r.setNow(r.now + ev.Dt)
		r.emit(raw, info, 0, "", "")
	case "Update":
		if ev.Hdr == nil {
			r.t.Fatalf("bad Update event %s", raw)
		}
		hdr := r.header(ev.Hdr)
		msg, err := clienttypes.NewMsgUpdateClient(tmClientName, hdr, c.SenderAccount.GetAddress())
		if err != nil {
			r.t.Fatal(err)
		}
		r.setNow(r.now)
		res := r.nt.Deliver("A", 0, msg)
		// a transaction refused before the ante handler does not consume the sequence number
		if acc := c.App.AccountKeeper.GetAccount(c.GetContext(), c.SenderAccount.GetAddress()); acc != nil {
			_ = c.SenderAccount.SetSequence(acc.GetSequence())
			_ = c.SenderAccounts[0].SenderAccount.SetSequence(acc.GetSequence())
		}
		r.setNow(r.now)
		info["header_time"] = hdr.GetTime().Format(time.RFC3339Nano)
		info["block_time"] = r.T(r.now).Format(time.RFC3339Nano)
		info["chain_id"] = hdr.Header.ChainID
		info["gas"] = res.GasUsed
		cs := ""
		if res.Code != 0 {
			cs = fmt.Sprintf("%s/%d", res.Codespace, res.Code)
		}
		r.emit(raw, info, res.Code, cs, res.Log)
	default:
		r.t.Fatalf("unknown act %q", ev.Act)
	}
}

// ---------------------------------------------------------------------------------------------
// projection of the real client store

func (r *tmRunner) emit(ev json.RawMessage, info map[string]interface{}, code uint32, cs, log string) {
	c := r.chain
	ctx := c.GetContext()
	ck := c.App.TIBCKeeper.ClientKeeper
	if info == nil {
		info = map[string]interface{}{}
	}
	if len(log) > 300 {
		log = log[:300]
	}
	rec := &tmRec{Tr: r.tr, I: r.i, Ev: ev, Info: info, Code: code, Cs: cs, Log: log, Status: "None",
		Iter: [][2]int64{}, Cdig: r.nt.ClientDigest("A"), Pdig: r.nt.PacketDigest("A")}
	r.i++
	rec.St.Cons = [][]interface{}{}
	rec.St.Now = r.tick(ctx.BlockTime())
	if csI, found := ck.GetClientState(ctx, tmClientName); found {
		store := ck.ClientStore(ctx, tmClientName)
		rec.Status = string(csI.Status(ctx, store, c.App.AppCodec()))
		if tcs, ok := csI.(*ibctmtypes.ClientState); ok {
			rec.St.Par = tmPar{Num: int64(tcs.TrustLevel.Numerator), Den: int64(tcs.TrustLevel.Denominator),
				Period: r.dur(tcs.TrustingPeriod), Drift: r.dur(tcs.MaxClockDrift), Rev: int64(clienttypes.ParseChainID(tcs.ChainId))}
			rec.St.Latest = [2]int64{int64(tcs.LatestHeight.RevisionNumber), int64(tcs.LatestHeight.RevisionHeight)}
		} else {
			rec.Status = "NotTendermint"
		}
		prefix := []byte(host.KeyConsensusStatePrefix + "/")
		it := storetypes.KVStorePrefixIterator(store, prefix)
		for ; it.Valid(); it.Next() {
			k := it.Key()[len(prefix):]
			if len(k) != 16 {
				continue // metadata below the consensus state key (processed time)
			}
			hh := ibctmtypes.GetHeightFromIterationKey(append([]byte(ibctmtypes.KeyIterateConsensusStatePrefix), k...))
			row := []interface{}{int64(hh.GetRevisionNumber()), int64(hh.GetRevisionHeight()), int64(-1), int64(-1), "?"}
			if csv, err := clienttypes.UnmarshalConsensusState(c.App.AppCodec(), it.Value()); err == nil {
				if tc, ok := csv.(*ibctmtypes.ConsensusState); ok {
					row[2] = r.tick(tc.Timestamp)
					if id, ok := r.roots[hex.EncodeToString(tc.Root.GetHash())]; ok {
						row[3] = id
					}
					if id, ok := r.bySum[hex.EncodeToString(tc.NextValidatorsHash)]; ok {
						row[4] = id
					}
				}
			}
			rec.St.Cons = append(rec.St.Cons, row)
		}
		it.Close()
		ibctmtypes.IterateConsensusStateAscending(store, func(h exported.Height) bool {
			rec.Iter = append(rec.Iter, [2]int64{int64(h.GetRevisionNumber()), int64(h.GetRevisionHeight())})
			return false
		})
	}
	sort.Slice(rec.Iter, func(a, b int) bool {
		if rec.Iter[a][0] != rec.Iter[b][0] {
			return rec.Iter[a][0] < rec.Iter[b][0]
		}
		return rec.Iter[a][1] < rec.Iter[b][1]
	})
	r.out(rec)
}
