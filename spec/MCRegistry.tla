------------------------------ MODULE MCRegistry ------------------------------
(* Constant definitions for the RegistryMC configurations (cfg files cannot hold tuples). *)
EXTENDS RegistryMC

\* rule lists governance may submit: the syntax itself is the subject of the routing family
RuleListsStd == << [rules |-> <<"B,C,nft">>, rvalid |-> TRUE],
                   [rules |-> <<"*,*,*", "B,*,mt">>, rvalid |-> TRUE],
                   [rules |-> <<>>, rvalid |-> TRUE],
                   [rules |-> <<"B,C">>, rvalid |-> FALSE],
                   [rules |-> <<"B,C,nft", "a b,C,nft">>, rvalid |-> FALSE] >>
RuleListsSmall == << [rules |-> <<"B,C,nft">>, rvalid |-> TRUE], [rules |-> <<"B,C">>, rvalid |-> FALSE] >>
=============================================================================
