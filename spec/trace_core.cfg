\* trace validation against the as-coded model of the current tree (flags: tree_flags.json)
CONSTANTS
  Chains = {"A","B","C"}
  Names = {"A","B","C","Z"}
  Ports = {"mock","nft","mt","ghost"}
  BoundPorts = {"mock","nft","mt"}
  Data = {"d1","d2","d3"}
  DecodableData = {"d2"}
  EmptyData = ""
  AckTags = {"mock","unauth","errX","ok"}
  MaxSeq = 9
  F_BIND = FALSE
  F_ACKCB_SRC_ONLY = TRUE
  F_STATUS = TRUE
  F_RELAY_DST_ERRACK = TRUE
SPECIFICATION TraceSpec
INVARIANT Done
CHECK_DEADLOCK FALSE
