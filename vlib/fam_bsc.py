"""Family "bsc": property C17 (BSC / Parlia light client, modules/tibc/light-clients/08-bsc).

   spec/Bsc.tla          client state, header descriptor, AcceptStmt (the statement), Accept/HdrRes (step function with
                         deviation flags F_NOWRAP, F_PRUNE_OLD, F_LENGTHS, F_FULLWINDOW; tree position in
                         spec/tree_flags_bsc.json)
   spec/BscMC.tla        exhaustive Next (sets of 1..5 validators) and NextSim generation; MCBsc.tla holds the constants
   harness/bsc.go        real secp256k1-sealed headers -> MsgUpdateClient on a simapp chain; projection of the real client;
                         behaviours/bsc/recorded.json: the 300 recorded mainnet headers of /repo's testdata, classified
   spec/TraceBsc.tla     decision both ways + post-state formulas (bad, p = C17); step function (div)
"""
from . import tracefam as T

FAM = dict(
    name="bsc",
    design=[
        dict(role="intended", module="MCBsc.tla", cfg="bsc_intended.cfg",
             overrides_quick={"Tier": "1", "MaxLen": "5", "Epochs": "{3, 4}", "MaxOddTimes": "0"},
             overrides_thorough={"Tier": "2", "MaxLen": "6", "Epochs": "{3, 4, 5}", "MaxOddTimes": "1"},
             # quick ~20 k distinct states, thorough ~440 k (about 5-10 ms of CPU per state with all invariants on);
             # the timeouts leave room for a heavily shared machine
             timeout_quick=1500, timeout_thorough=3300),
        # predicted deviations of the current tree: each of these is expected to end in a counterexample
        # (bsc_ascoded_wrap.cfg and bsc_ascoded_lengths.cfg described the tree before the two fix: commits; kept in spec/ for reference)
        dict(role="as-coded", module="MCBsc.tla", cfg="bsc_ascoded_window.cfg", timeout_quick=600, timeout_thorough=600),
        dict(role="as-coded", module="MCBsc.tla", cfg="bsc_ascoded_prune.cfg", timeout_quick=600, timeout_thorough=600),
    ],
    # 3/4 of the behaviours: validator sets of 1..5 members, epochs 3..5; 1/4 "wide": sets of up to 21 members, epochs 11..13
    gen=dict(module="MCBsc.tla", cfgs=[("gen_bsc.cfg", 0.75), ("gen_bsc_wide.cfg", 0.25)],
             quick=(240, 40), thorough=(1000, 60), timeout=1500),
    trace=dict(module="TraceBsc.tla", cfg="trace_bsc.cfg"),
    harness=dict(family="bsc", chains=1, links=[]),
    assumptions=[
        "TLA+ model: validators are indices in address order; hashes, roots and times are names/offsets; gas limits are "
        "classes relative to the parent's (edges of the bounds included); epoch length > floor(MaxN/2)",
        "header fields other than those of the descriptor (tx/receipt roots, bloom, vanity) are fixed; over-long byte fields "
        "and duplicate addresses in a validator list are outside the alphabet",
        "the seal hash is recomputed in the harness (go-ethereum rlp + keccak) and cross-checked on every run against the "
        "300 recorded mainnet headers of the repository's testdata (sealer recovery = miner, hash chain)",
        "real code is exercised only on the behaviours replayed (TLC simulation of the as-coded model); exhaustive TLC "
        "checking is on the model, for validator sets of 1..5 members",
        "cosmos-sdk BaseApp atomicity, go-ethereum secp256k1/rlp/keccak, TLC and the harness projection are trusted",
    ],
)

PROPS = ["C17"]


def check(prop, tier, seed, replay):
    if replay:
        return T.replay(prop, FAM, replay)
    r = T.run_family(FAM, tier, seed)
    predicted = {d["cfg"]: d["violated"] for d in r["designs"] if d["role"] == "as-coded"}
    wide = sum(1 for n in r["behaviour_names"] if n.startswith("gen_bsc_wide"))
    extra = dict(predicted_deviations_of_the_as_coded_model=predicted,
                 behaviours_with_up_to_21_validators=wide,
                 recorded_mainnet_headers_replayed=sum(v for k, v in r["acts"].items() if k.startswith("Hdr:recorded")),
                 tree_flags="spec/tree_flags_bsc.json")
    return T.verdict(prop, FAM, tier, seed, r, extra_cov=extra)
