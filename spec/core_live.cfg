\* design check, intended model: every listed core invariant must hold
CONSTANTS
  Chains = {"A","B","C"}
  Names = {"A","B","C","Z"}
  Ports = {"mock","nft","ghost"}
  BoundPorts = {"mock","nft","mt"}
  Data = {"d1","d2"}
  DecodableData = {"d2"}
  EmptyData = ""
  AckTags = {"mock","unauth","errX","ok"}
  MaxSeq = 1
  F_BIND = TRUE
  F_ACKCB_SRC_ONLY = TRUE
  F_STATUS = TRUE
  F_RELAY_DST_ERRACK = TRUE
  Links <- Links3
  RuleSets <- RuleSetsSmall
  Senders = {"A"}
  Dests = {"C"}
  UserRelays = {"","B"}
  UserPorts = {"mock"}
  UserData = {"d1"}
  RuleChains = {"B"}
  AdvOn = TRUE
  ExpirePairs <- NoPairs
  ExportOn = FALSE
  LOG = FALSE
  SimDepth = 0
  SimMode = "mixed"
SPECIFICATION FairSpec
INVARIANTS Inv_C14 Inv_C01 Inv_C02 Inv_C03 Inv_C09 Inv_C11 Inv_C13 Inv_C10
PROPERTIES Live_Settled
CHECK_DEADLOCK FALSE
