#!/bin/bash
# parses every top-level module used by a configuration; prints the ones that fail
d=$(mktemp -d); cp /verif/spec/*.tla $d/; cd $d; rc=0
for m in MCApps MCCore TraceApps TraceCore MCTm TraceTm MCBsc TraceBsc MCEth TraceEth MCProofs TraceProofs MCRouting TraceRouting MCRegistry TraceRegistry StatusClient TraceStatus TraceDet; do
  if tla-sany $m.tla 2>&1 | grep -q "rror"; then echo "PARSE ERROR: $m"; rc=1; fi
done
rm -rf $d; exit $rc
