package harness

// Family "proofs" (C08): every point of the case table enumerated by spec/ProofsMC.tla is realised on the
// REAL verification functions of the three light clients.  This file contains no oracle: it builds the
// counterparty state, the client store, the client state, the proof bytes and the call context from the
// abstract event, calls ClientState.VerifyPacketCommitment / VerifyPacketAcknowledgement /
// VerifyPacketCleanCommitment, and records what happened.  spec/TraceProofs.tla decides.
//
//   tm        three real simapp chains: V (verifier), P (counterparty) and O (an unrelated store).  The facts of
//             the store history are written into P's committed IAVL tibc store through the packet keeper, height
//             by height; V's real 07-tendermint client of P is updated with real MsgUpdateClient transactions at
//             the heights the configuration lists (at tick h of V's clock); proofs are real ABCI query proofs.
//   bsc, eth  a go-ethereum storage trie of a contract (slot = keccak(path || pad32(104)), trie key =
//             keccak(slot), value = RLP of the 32-byte word without leading zeros) inside a state trie holding the
//             contract account; the state root is put into a real ConsensusState in a real client store; the proof
//             is assembled the way eth_getProof reports it (storageProof.key = the slot) and marshalled through
//             the client's own Proof type, which is what the client unmarshals.

import (
	"bytes"
	"crypto/sha256"
	"encoding/hex"
	"encoding/json"
	"fmt"
	"math/big"
	"sort"
	"strings"
	"testing"
	"time"

	"github.com/ethereum/go-ethereum/common"
	"github.com/ethereum/go-ethereum/common/hexutil"
	ethtypes "github.com/ethereum/go-ethereum/core/types"
	"github.com/ethereum/go-ethereum/crypto"
	"github.com/ethereum/go-ethereum/ethdb/memorydb"
	"github.com/ethereum/go-ethereum/light"
	"github.com/ethereum/go-ethereum/rlp"
	"github.com/ethereum/go-ethereum/trie"

	storetypes "cosmossdk.io/store/types"
	"github.com/cosmos/cosmos-sdk/codec"
	sdk "github.com/cosmos/cosmos-sdk/types"
	ics23 "github.com/cosmos/ics23/go"

	clienttypes "github.com/bianjieai/tibc-go/modules/tibc/core/02-client/types"
	commitmenttypes "github.com/bianjieai/tibc-go/modules/tibc/core/23-commitment/types"
	host "github.com/bianjieai/tibc-go/modules/tibc/core/24-host"
	"github.com/bianjieai/tibc-go/modules/tibc/core/exported"
	tmclient "github.com/bianjieai/tibc-go/modules/tibc/light-clients/07-tendermint/types"
	bscclient "github.com/bianjieai/tibc-go/modules/tibc/light-clients/08-bsc/types"
	ethclient "github.com/bianjieai/tibc-go/modules/tibc/light-clients/09-eth/types"
	tibctesting "github.com/bianjieai/tibc-go/modules/tibc/testing"
)

func init() { Families["proofs"] = runProofs }

// ---------------------------------------------------------------------------------------------------
// abstract events

type pCfg struct {
	Type   string    `json:"type"`
	Hist   string    `json:"hist"`
	S      [][]pFact `json:"S"` // S[h-1] = facts at height h
	Latest int       `json:"latest"`
	Roots  []int     `json:"roots"`
	Delay  int       `json:"delay"`
	Proc   [][]int   `json:"proc"`
	Now    int       `json:"now"`
	Mode   string    `json:"mode"`
}

// pFact is [kind, s, d, n, v]
type pFact struct {
	Kind, S, D string
	N          uint64
	V          int
}

func (f *pFact) UnmarshalJSON(b []byte) error {
	var raw []interface{}
	if err := json.Unmarshal(b, &raw); err != nil {
		return err
	}
	if len(raw) != 5 {
		return fmt.Errorf("fact needs 5 fields: %s", b)
	}
	f.Kind, f.S, f.D = raw[0].(string), raw[1].(string), raw[2].(string)
	f.N, f.V = uint64(raw[3].(float64)), int(raw[4].(float64))
	return nil
}

type pQuery struct {
	Kind string `json:"kind"`
	S    string `json:"s"`
	D    string `json:"d"`
	N    uint64 `json:"n"`
	V    int    `json:"v"`
	H    int    `json:"h"`
}

type pProof struct {
	At      int    `json:"at"`
	Kind    string `json:"kind"`
	S       string `json:"s"`
	D       string `json:"d"`
	N       uint64 `json:"n"`
	Variant string `json:"variant"`
}

type pEvent struct {
	Act string  `json:"act"`
	Cfg *pCfg   `json:"cfg,omitempty"`
	Q   *pQuery `json:"q,omitempty"`
	Pf  *pProof `json:"pf,omitempty"`
}

// pRec is one NDJSON line.  code: 0 = verified, 1 = refused with an error, 2 = the harness could not realise
// the case, 3 = the verification function panicked.
type pRec struct {
	Tr   int                    `json:"tr"`
	I    int                    `json:"i"`
	Ev   json.RawMessage        `json:"ev"`
	Code int                    `json:"code"`
	Log  string                 `json:"log"`
	Info map[string]interface{} `json:"info"`
}

// ---------------------------------------------------------------------------------------------------
// concretisation of names, keys and values (shared by all client types)

var pChainNames = map[string]string{"A": "chain-alpha", "B": "chain-beta", "C": "chain-gamma"}

func pName(a string) string {
	if r, ok := pChainNames[a]; ok {
		return r
	}
	return "chain-" + strings.ToLower(a)
}

// pPath is the protocol-defined store key of (kind, s, d, n) (24-host).
func pPath(kind, s, d string, n uint64) []byte {
	switch kind {
	case "commit":
		return host.PacketCommitmentKey(pName(s), pName(d), n)
	case "ack":
		return host.PacketAcknowledgementKey(pName(s), pName(d), n)
	case "clean":
		return host.CleanPacketCommitmentKey(pName(s), pName(d))
	}
	panic("bad kind " + kind)
}

// pHash32 maps a value index to a 32-byte hash: 1 ordinary, 2 with two leading zero bytes, 3 = value 1 with
// its last byte changed, others ordinary.
func pHash32(v int) []byte {
	h := sha256.Sum256([]byte(fmt.Sprintf("value-%d", v)))
	switch v {
	case 2:
		h[0], h[1] = 0, 0
	case 3:
		h = sha256.Sum256([]byte("value-1"))
		h[31] ^= 0x01
	}
	return h[:]
}

// pStored is the byte string a Cosmos chain stores for the fact (and the value handed to Verify*).
func pStored(kind string, v int) []byte {
	if kind == "clean" {
		return sdk.Uint64ToBigEndian(uint64(v))
	}
	return pHash32(v)
}

// pWord is the 32-byte storage word an EVM contract holds for the fact (bytes32 hash / uint64 sequence).
func pWord(kind string, v int) []byte {
	return common.LeftPadBytes(pStored(kind, v), 32)
}

func pClean(s string) string {
	var b strings.Builder
	for _, r := range s {
		if r >= 32 && r < 127 && r != '"' && r != '\\' {
			b.WriteRune(r)
		} else {
			b.WriteByte('?')
		}
		if b.Len() >= 160 {
			break
		}
	}
	return b.String()
}

func pHas(xs []int, x int) bool {
	for _, y := range xs {
		if y == x {
			return true
		}
	}
	return false
}

// ---------------------------------------------------------------------------------------------------
// worlds

type pWorld interface {
	// Describe returns what was concretised for a configuration (logged with the Config record).
	Describe(cfg *pCfg) map[string]interface{}
	// Verify realises one case and calls the real verification function.
	Verify(cfg *pCfg, q *pQuery, pf *pProof) (err error, info map[string]interface{}, unrealisable string)
}

var pWorlds = map[string]pWorld{}

func pWorldFor(t *testing.T, cfg *pCfg) pWorld {
	roots := append([]int{}, cfg.Roots...)
	sort.Ints(roots)
	key := fmt.Sprintf("%s|%s|%v", cfg.Type, cfg.Hist, roots)
	if cfg.Type != "tm" {
		key = fmt.Sprintf("mpt|%s|%v", cfg.Hist, roots) // bsc and eth share the counterparty world
	}
	if w, ok := pWorlds[key]; ok {
		return w
	}
	var w pWorld
	if cfg.Type == "tm" {
		w = newTMWorld(t, cfg)
	} else {
		w = newMPTWorld(t, cfg, key)
	}
	pWorlds[key] = w
	return w
}

func runProofs(t *testing.T, inp *Input, tr int, beh []json.RawMessage, out func(interface{})) {
	var cfg *pCfg
	var w pWorld
	// record 0 of every behaviour: nothing configured yet
	out(&pRec{Tr: tr, I: 0, Ev: json.RawMessage(`{"act":"Reset"}`), Info: map[string]interface{}{}})
	for i, raw := range beh {
		var ev pEvent
		if err := json.Unmarshal(raw, &ev); err != nil {
			t.Fatalf("bad event %s: %v", raw, err)
		}
		rec := &pRec{Tr: tr, I: i + 1, Ev: raw, Info: map[string]interface{}{}}
		switch ev.Act {
		case "Config":
			cfg = ev.Cfg
			w = pWorldFor(t, cfg)
			rec.Info = w.Describe(cfg)
		case "Verify":
			if cfg == nil {
				t.Fatalf("Verify before Config in behaviour %d", tr)
			}
			func() {
				defer func() {
					if r := recover(); r != nil {
						rec.Code, rec.Log = 3, pClean(fmt.Sprint("panic: ", r))
					}
				}()
				err, info, unreal := w.Verify(cfg, ev.Q, ev.Pf)
				if info != nil {
					rec.Info = info
				}
				switch {
				case unreal != "":
					rec.Code, rec.Log = 2, unreal
				case err != nil:
					rec.Code, rec.Log = 1, pClean(err.Error())
				}
			}()
		default:
			t.Fatalf("unknown proofs event %q", ev.Act)
		}
		out(rec)
	}
}

// pCall dispatches to the exported verification function of any client type.
func pCall(cs exported.ClientState, ctx sdk.Context, store storetypes.KVStore, cdc codec.BinaryCodec,
	height exported.Height, proof []byte, q *pQuery) error {
	s, d := pName(q.S), pName(q.D)
	switch q.Kind {
	case "commit":
		return cs.VerifyPacketCommitment(ctx, store, cdc, height, proof, s, d, q.N, pStored("commit", q.V))
	case "ack":
		return cs.VerifyPacketAcknowledgement(ctx, store, cdc, height, proof, s, d, q.N, pStored("ack", q.V))
	case "clean":
		// the claimed value of a clean query is the clean sequence
		return cs.VerifyPacketCleanCommitment(ctx, store, cdc, height, proof, s, d, uint64(q.V))
	}
	panic("bad kind " + q.Kind)
}

// ---------------------------------------------------------------------------------------------------
// Tendermint world

const pTick = 10 * time.Minute // one abstract tick of the verifying chain's clock

type tmWorld struct {
	t       *testing.T
	coord   *tibctesting.Coordinator
	V, P, O *tibctesting.TestChain
	T0      time.Time
	RH, RHO map[int]uint64 // abstract height -> real provable height on P / O
	base    tmclient.ClientState
	proofs  map[string][]byte
	procNs  map[int]uint64
}

func pApplyFacts(c *tibctesting.TestChain, prev, cur []pFact, extra bool) {
	ctx := c.GetContext()
	pk := c.App.TIBCKeeper.PacketKeeper
	seen := map[string]bool{}
	for _, f := range cur {
		seen[string(pPath(f.Kind, f.S, f.D, f.N))] = true
		switch f.Kind {
		case "commit":
			pk.SetPacketCommitment(ctx, pName(f.S), pName(f.D), f.N, pStored("commit", f.V))
		case "ack":
			pk.SetPacketAcknowledgement(ctx, pName(f.S), pName(f.D), f.N, pStored("ack", f.V))
			pk.SetMaxAckSequence(ctx, pName(f.S), pName(f.D), f.N)
		case "clean":
			pk.SetCleanPacketCommitment(ctx, pName(f.S), pName(f.D), uint64(f.V))
		}
	}
	st := ctx.KVStore(c.App.GetKey(host.StoreKey))
	for _, f := range prev {
		k := pPath(f.Kind, f.S, f.D, f.N)
		if !seen[string(k)] {
			st.Delete(k) // the keeper's own delete functions are not exported
		}
	}
	if extra {
		pk.SetPacketCommitment(ctx, "other-store", "only", 1, pHash32(9))
	}
}

func newTMWorld(t *testing.T, cfg *pCfg) *tmWorld {
	w := &tmWorld{t: t, RH: map[int]uint64{}, RHO: map[int]uint64{}, proofs: map[string][]byte{}, procNs: map[int]uint64{}}
	w.coord = tibctesting.NewCoordinator(t, 3)
	w.V = w.coord.GetChain(tibctesting.GetChainID(0))
	w.P = w.coord.GetChain(tibctesting.GetChainID(1))
	w.O = w.coord.GetChain(tibctesting.GetChainID(2))
	w.coord.CommitNBlocks(w.P, 2)
	w.coord.CommitNBlocks(w.O, 2)
	w.coord.SetupClients(tibctesting.NewPath(w.V, w.P))
	w.T0 = w.coord.CurrentTime.Add(time.Minute).Truncate(time.Minute)
	var prev []pFact
	for h := 1; h <= len(cfg.S); h++ {
		cur := cfg.S[h-1]
		pApplyFacts(w.P, prev, cur, false)
		pApplyFacts(w.O, prev, cur, true)
		prev = cur
		w.coord.CommitBlock(w.P, w.O) // commits the writes (version X)
		w.coord.CommitBlock(w.P, w.O) // header X+1 carries the app hash of version X
		w.RH[h] = w.P.LastHeader.GetHeight().GetRevisionHeight()
		w.RHO[h] = w.O.LastHeader.GetHeight().GetRevisionHeight()
		// V's clock reaches tick h; the header of height h is processed exactly then (if at all)
		target := w.T0.Add(time.Duration(h) * pTick)
		w.coord.IncrementTimeBy(target.Sub(w.coord.CurrentTime))
		if pHas(cfg.Roots, h) {
			if err := w.V.UpdateTMClient(w.P, w.P.ChainName); err != nil {
				t.Fatalf("tm world: client update at abstract height %d failed: %v", h, err)
			}
		} else {
			w.coord.CommitBlock(w.V)
		}
	}
	w.coord.CommitBlock(w.V)
	cs, ok := w.V.GetClientState(w.P.ChainName).(*tmclient.ClientState)
	if !ok {
		t.Fatalf("tm world: client state has an unexpected type")
	}
	w.base = *cs
	// the environment is what the configuration says (this checks the harness, not the code under test)
	store := w.store(w.V.GetContext())
	for h := 1; h <= len(cfg.S); h++ {
		_, err := tmclient.GetConsensusState(store, w.V.App.AppCodec(), w.height(h))
		if (err == nil) != pHas(cfg.Roots, h) {
			t.Fatalf("tm world: consensus state at abstract height %d: present=%v, configuration says %v", h, err == nil, pHas(cfg.Roots, h))
		}
		if ns, ok := tmclient.GetProcessedTime(store, w.height(h)); ok {
			w.procNs[h] = ns
			if want := uint64(w.T0.Add(time.Duration(h) * pTick).UnixNano()); ns != want {
				t.Fatalf("tm world: processed time of height %d is %d, expected tick %d = %d", h, ns, h, want)
			}
		}
	}
	return w
}

func (w *tmWorld) height(h int) clienttypes.Height {
	rev := clienttypes.ParseChainID(w.P.ChainID)
	if rh, ok := w.RH[h]; ok {
		return clienttypes.NewHeight(rev, rh)
	}
	return clienttypes.NewHeight(rev, w.RH[len(w.RH)]+uint64(h))
}

func (w *tmWorld) store(ctx sdk.Context) storetypes.KVStore {
	return w.V.App.TIBCKeeper.ClientKeeper.ClientStore(ctx, w.P.ChainName)
}

func (w *tmWorld) Describe(cfg *pCfg) map[string]interface{} {
	rh := []interface{}{}
	for h := 1; h <= len(w.RH); h++ {
		rh = append(rh, []interface{}{h, w.RH[h], fmt.Sprint(w.procNs[h])})
	}
	return map[string]interface{}{"world": "tm", "verifier": w.V.ChainID, "counterparty": w.P.ChainID, "other": w.O.ChainID,
		"heights_abs_real_processedNs": rh, "t0_ns": fmt.Sprint(w.T0.UnixNano()), "tick_ns": fmt.Sprint(int64(pTick)),
		"client_latest_real": w.base.LatestHeight.String()}
}

func (w *tmWorld) rawProof(at int, key []byte, other bool) []byte {
	ck := fmt.Sprintf("%v|%d|%s", other, at, key)
	if bz, ok := w.proofs[ck]; ok {
		return bz
	}
	c, rh := w.P, w.RH[at]
	if other {
		c, rh = w.O, w.RHO[at]
	}
	bz, _ := c.QueryProofAtHeight(key, int64(rh))
	w.proofs[ck] = bz
	return bz
}

func pFlipLast(b []byte) []byte {
	c := append([]byte{}, b...)
	if len(c) > 0 {
		c[len(c)-1] ^= 0x01
	}
	return c
}

func (w *tmWorld) Verify(cfg *pCfg, q *pQuery, pf *pProof) (error, map[string]interface{}, string) {
	key := pPath(pf.Kind, pf.S, pf.D, pf.N)
	qkey := pPath(q.Kind, q.S, q.D, q.N)
	bz := w.rawProof(pf.At, key, pf.Variant == "otherStore")
	note := ""
	edit := func(f func(mp *commitmenttypes.MerkleProof)) {
		var mp commitmenttypes.MerkleProof
		if err := mp.Unmarshal(bz); err != nil {
			w.t.Fatalf("tm: own proof does not unmarshal: %v", err)
		}
		f(&mp)
		out, err := mp.Marshal()
		if err != nil {
			w.t.Fatalf("tm: marshal: %v", err)
		}
		bz = out
	}
	switch pf.Variant {
	case "genuine", "otherStore":
	case "relabelled":
		edit(func(mp *commitmenttypes.MerkleProof) {
			switch p := mp.Proofs[0].Proof.(type) {
			case *ics23.CommitmentProof_Exist:
				p.Exist.Key = qkey
			case *ics23.CommitmentProof_Nonexist:
				p.Nonexist.Key = qkey
				note = "nonexistence proof"
			}
		})
	case "shadowKey":
		edit(func(mp *commitmenttypes.MerkleProof) {
			switch p := mp.Proofs[0].Proof.(type) {
			case *ics23.CommitmentProof_Exist:
				p.Exist.Key = append([]byte{0x01}, qkey...)
			case *ics23.CommitmentProof_Nonexist:
				p.Nonexist.Key = append([]byte{0x01}, qkey...)
				note = "nonexistence proof"
			}
		})
	case "truncated":
		bz = append([]byte{}, bz[:len(bz)*2/3]...)
	case "reordered":
		edit(func(mp *commitmenttypes.MerkleProof) {
			if len(mp.Proofs) >= 2 {
				mp.Proofs[0], mp.Proofs[1] = mp.Proofs[1], mp.Proofs[0]
			}
		})
	case "valueSwapped":
		edit(func(mp *commitmenttypes.MerkleProof) {
			if p, ok := mp.Proofs[0].Proof.(*ics23.CommitmentProof_Exist); ok {
				nv := pStored(q.Kind, q.V)
				if bytes.Equal(nv, p.Exist.Value) {
					nv = pFlipLast(nv)
				}
				p.Exist.Value = nv
			} else {
				note = "nonexistence proof: nothing to swap"
			}
		})
	case "empty":
		bz = []byte{}
	case "garbage":
		bz = append([]byte{}, bz...)
		bz[len(bz)/2] ^= 0x41
	default:
		return nil, nil, "unknown variant " + pf.Variant
	}
	cs := w.base
	cs.LatestHeight = w.height(cfg.Latest)
	cs.TimeDelay = uint64(cfg.Delay) * uint64(pTick)
	now := w.T0.Add(time.Duration(cfg.Now) * pTick)
	ctx := w.V.GetContext().WithBlockTime(now)
	height := w.height(q.H)
	err := pCall(&cs, ctx, w.store(ctx), w.V.App.AppCodec(), height, bz, q)
	info := map[string]interface{}{"h": height.RevisionHeight, "at": w.RH[pf.At], "len": len(bz), "note": note}
	return err, info, ""
}

// ---------------------------------------------------------------------------------------------------
// Merkle-Patricia world (BSC and ETH clients)

const (
	mptSlotIndex  = 104  // storage slot of the contract's mapping (Solidity: keccak(key || pad32(slot index)))
	mptHeightBase = 1000 // real block number of abstract height h is mptHeightBase + h
)

type mptAccount struct {
	addr     []byte
	nonce    uint64
	balance  *big.Int
	codeHash common.Hash
	storage  *trie.Trie
}

type mptState struct {
	root  common.Hash
	state *trie.Trie
	acct  [2]*mptAccount // 0 = the TIBC contract, 1 = another contract with the same facts
}

type mptWorld struct {
	t      *testing.T
	chain  *tibctesting.TestChain
	name   map[string]string // client type -> client (chain) name in the client store
	states map[int]*mptState
	parts  map[string]*mptParts
}

func mptNewTrie() *trie.Trie {
	tr, err := trie.New(common.Hash{}, trie.NewDatabase(memorydb.New()))
	if err != nil {
		panic(err)
	}
	return tr
}

func mptSlot(path []byte) []byte {
	return crypto.Keccak256(path, common.LeftPadBytes(big.NewInt(mptSlotIndex).Bytes(), 32))
}

func mptPutWord(tr *trie.Trie, slot []byte, word []byte) {
	enc, err := rlp.EncodeToBytes(common.TrimLeftZeroes(word))
	if err != nil {
		panic(err)
	}
	tr.Update(crypto.Keccak256(slot), enc)
}

func mptProve(tr *trie.Trie, key []byte) [][]byte {
	var nl light.NodeList
	if err := tr.Prove(key, 0, &nl); err != nil {
		panic(err)
	}
	out := [][]byte{}
	for _, n := range nl {
		out = append(out, append([]byte{}, n...))
	}
	return out
}

// mptShadowSlot is the storage location a key with one extra leading byte hashes to.
func mptShadowSlot(slot []byte) []byte { return append([]byte{0x01}, slot...) }

func mptBuildState(h int, facts []pFact, all []pFact) *mptState {
	st := &mptState{state: mptNewTrie()}
	for c := 0; c < 2; c++ {
		a := &mptAccount{addr: crypto.Keccak256([]byte(fmt.Sprintf("tibc-contract-%d", c)))[12:], nonce: 1,
			balance: big.NewInt(1234567), codeHash: crypto.Keccak256Hash([]byte("contract code")), storage: mptNewTrie()}
		for _, f := range facts {
			mptPutWord(a.storage, mptSlot(pPath(f.Kind, f.S, f.D, f.N)), pWord(f.Kind, f.V))
		}
		// "shadow" storage: for every fact of the whole history (stored at this height or not) the same word sits at
		// the location that the slot with one extra leading byte hashes to - a different place of the contract's storage
		for _, f := range all {
			mptPutWord(a.storage, mptShadowSlot(mptSlot(pPath(f.Kind, f.S, f.D, f.N))), pWord(f.Kind, f.V))
		}
		// unrelated storage: other slots of the contract, one of them changing with every block
		for i := 0; i < 24; i++ {
			mptPutWord(a.storage, crypto.Keccak256([]byte(fmt.Sprintf("other-slot-%d", i))), crypto.Keccak256([]byte(fmt.Sprintf("other-value-%d", i))))
		}
		mptPutWord(a.storage, crypto.Keccak256([]byte("block-counter")), big.NewInt(int64(mptHeightBase+h)).Bytes())
		if c == 1 {
			mptPutWord(a.storage, crypto.Keccak256([]byte("only-in-the-other-contract")), []byte{7})
		}
		st.acct[c] = a
		enc, err := rlp.EncodeToBytes(&ethtypes.StateAccount{Nonce: a.nonce, Balance: a.balance, Root: a.storage.Hash(), CodeHash: a.codeHash[:]})
		if err != nil {
			panic(err)
		}
		st.state.Update(crypto.Keccak256(a.addr), enc)
	}
	// unrelated accounts, one of them changing with every block
	for i := 0; i < 24; i++ {
		enc, _ := rlp.EncodeToBytes(&ethtypes.StateAccount{Nonce: uint64(i), Balance: big.NewInt(int64(1000000 * (i + 1))),
			Root: ethtypes.EmptyRootHash, CodeHash: crypto.Keccak256(nil)})
		st.state.Update(crypto.Keccak256([]byte(fmt.Sprintf("account-%d", i))), enc)
	}
	enc, _ := rlp.EncodeToBytes(&ethtypes.StateAccount{Nonce: uint64(h), Balance: big.NewInt(int64(h)), Root: ethtypes.EmptyRootHash, CodeHash: crypto.Keccak256(nil)})
	st.state.Update(crypto.Keccak256([]byte("miner")), enc)
	st.root = st.state.Hash()
	return st
}

func newMPTWorld(t *testing.T, cfg *pCfg, key string) *mptWorld {
	w := &mptWorld{t: t, states: map[int]*mptState{}, parts: map[string]*mptParts{}, name: map[string]string{}}
	coord := tibctesting.NewCoordinator(t, 1)
	w.chain = coord.GetChain(tibctesting.GetChainID(0))
	ctx := w.chain.GetContext()
	ck := w.chain.App.TIBCKeeper.ClientKeeper
	roots := append([]int{}, cfg.Roots...)
	sort.Ints(roots)
	tag := strings.NewReplacer(" ", "", "[", "", "]", "").Replace(fmt.Sprint(roots))
	w.name["bsc"] = fmt.Sprintf("bsc-%s-%s", strings.ToLower(cfg.Hist), tag)
	w.name["eth"] = fmt.Sprintf("eth-%s-%s", strings.ToLower(cfg.Hist), tag)
	seen := map[common.Hash]bool{}
	for h := 1; h <= len(cfg.S); h++ {
		all := []pFact{}
		for _, fs := range cfg.S {
			all = append(all, fs...)
		}
		st := mptBuildState(h, cfg.S[h-1], all)
		if seen[st.root] {
			t.Fatalf("mpt world: state roots of two heights coincide")
		}
		seen[st.root] = true
		w.states[h] = st
		if pHas(cfg.Roots, h) {
			number := clienttypes.NewHeight(0, uint64(mptHeightBase+h))
			ts := uint64(1600000000 + 3*h)
			ck.SetClientConsensusState(ctx, w.name["bsc"], number, &bscclient.ConsensusState{Timestamp: ts, Number: number, Root: st.root[:]})
			ck.SetClientConsensusState(ctx, w.name["eth"], number, &ethclient.ConsensusState{Timestamp: ts, Number: number, Root: st.root[:]})
		}
	}
	return w
}

func (w *mptWorld) Describe(cfg *pCfg) map[string]interface{} {
	rs := []interface{}{}
	for h := 1; h <= len(w.states); h++ {
		rs = append(rs, []interface{}{h, mptHeightBase + h, hex.EncodeToString(w.states[h].root[:8])})
	}
	return map[string]interface{}{"world": "mpt", "client_store": w.name[cfg.Type], "contract": hex.EncodeToString(w.states[1].acct[0].addr),
		"heights_abs_real_root": rs, "slot_index": mptSlotIndex}
}

// mptParts is what eth_getProof(address, [slot], block) reports.
type mptParts struct {
	acct         *mptAccount
	storageHash  common.Hash
	accountProof [][]byte
	slot         []byte
	storageProof [][]byte
	other        [][]byte // storage proof for the same slot from the other contract's storage
}

func (w *mptWorld) getParts(at int, path []byte) *mptParts {
	ck := fmt.Sprintf("%d|%s", at, path)
	if p, ok := w.parts[ck]; ok {
		return p
	}
	st := w.states[at]
	a := st.acct[0]
	slot := mptSlot(path)
	p := &mptParts{acct: a, storageHash: a.storage.Hash(), slot: slot,
		accountProof: mptProve(st.state, crypto.Keccak256(a.addr)),
		storageProof: mptProve(a.storage, crypto.Keccak256(slot)),
		other:        mptProve(st.acct[1].storage, crypto.Keccak256(slot))}
	w.parts[ck] = p
	return p
}

func hexes(nodes [][]byte) []string {
	out := []string{}
	for _, n := range nodes {
		out = append(out, hexutil.Encode(n))
	}
	return out
}

func reversed(nodes [][]byte) [][]byte {
	out := [][]byte{}
	for i := len(nodes) - 1; i >= 0; i-- {
		out = append(out, nodes[i])
	}
	return out
}

// mptLeafValue returns the word held by a leaf node (nil if the node is not a leaf).
func mptLeafValue(node []byte) ([]byte, [][]byte) {
	var items [][]byte
	if err := rlp.DecodeBytes(node, &items); err != nil || len(items) != 2 || len(items[0]) == 0 || items[0][0]&0x20 == 0 {
		return nil, nil
	}
	var word []byte
	if err := rlp.DecodeBytes(items[1], &word); err != nil {
		return nil, nil
	}
	return word, items
}

func (w *mptWorld) Verify(cfg *pCfg, q *pQuery, pf *pProof) (error, map[string]interface{}, string) {
	p := w.getParts(pf.At, pPath(pf.Kind, pf.S, pf.D, pf.N))
	qslot := mptSlot(pPath(q.Kind, q.S, q.D, q.N))
	accountProof, storageProof, slotLabel := p.accountProof, p.storageProof, p.slot
	note := ""
	reported := []byte{} // the "value" eth_getProof reports next to the storage proof (not proof material)
	if len(storageProof) > 0 {
		if word, _ := mptLeafValue(storageProof[len(storageProof)-1]); word != nil {
			reported = word
		}
	}
	var raw []byte
	switch pf.Variant {
	case "genuine":
	case "relabelled":
		slotLabel = qslot
	case "otherStore":
		storageProof = p.other
	case "truncated":
		if len(storageProof) > 0 {
			storageProof = storageProof[:len(storageProof)-1]
		}
	case "reordered":
		accountProof, storageProof = reversed(accountProof), reversed(storageProof)
	case "valueSwapped":
		note = "no leaf: nothing to swap"
		if n := len(storageProof); n > 0 {
			if word, items := mptLeafValue(storageProof[n-1]); word != nil {
				nw := common.TrimLeftZeroes(pWord(q.Kind, q.V))
				if bytes.Equal(nw, word) {
					nw = pFlipLast(nw)
				}
				items[1], _ = rlp.EncodeToBytes(nw)
				leaf, _ := rlp.EncodeToBytes(items)
				storageProof = append(append([][]byte{}, storageProof[:n-1]...), leaf)
				reported, note = nw, ""
			}
		}
	case "shadowKey":
		// key = 0x01 || queried slot; proof material = the real proof of the shadow location
		slotLabel = mptShadowSlot(qslot)
		storageProof = mptProve(p.acct.storage, crypto.Keccak256(slotLabel))
		if n := len(storageProof); n > 0 {
			if word, _ := mptLeafValue(storageProof[n-1]); word != nil {
				reported = word
			}
		}
	case "empty":
		raw = []byte("{}")
	case "garbage":
		flip := func(nodes [][]byte) [][]byte {
			out := append([][]byte{}, nodes...)
			last := append([]byte{}, out[len(out)-1]...)
			last[len(last)/2] ^= 0x41
			out[len(out)-1] = last
			return out
		}
		if len(storageProof) > 0 {
			storageProof = flip(storageProof)
		} else {
			accountProof = flip(accountProof)
		}
	default:
		return nil, nil, "unknown variant " + pf.Variant
	}
	number := clienttypes.NewHeight(0, uint64(mptHeightBase+q.H))
	latest := clienttypes.NewHeight(0, uint64(mptHeightBase+cfg.Latest))
	ctx := w.chain.GetContext()
	store := w.chain.App.TIBCKeeper.ClientKeeper.ClientStore(ctx, w.name[cfg.Type])
	cdc := w.chain.App.AppCodec()
	info := map[string]interface{}{"h": number.RevisionHeight, "at": mptHeightBase + pf.At, "note": note,
		"nodes": []int{len(accountProof), len(storageProof)}}
	var cs exported.ClientState
	var err error
	switch cfg.Type {
	case "bsc":
		if raw == nil {
			raw, err = json.Marshal(&bscclient.Proof{Address: hexutil.Encode(p.acct.addr), Balance: hexutil.EncodeBig(p.acct.balance),
				CodeHash: p.acct.codeHash.Hex(), Nonce: hexutil.EncodeUint64(p.acct.nonce), StorageHash: p.storageHash.Hex(),
				AccountProof: hexes(accountProof),
				StorageProof: []*bscclient.StorageResult{{Key: hexutil.Encode(slotLabel), Value: hexutil.Encode(reported), Proof: hexes(storageProof)}}})
		}
		// the BSC client derives its block delay from the size of the validator set
		var found *bscclient.ClientState
		for _, n := range []int{1, 2, 3, 4, 5, 6, 7, 8, 9, 10, 11, 12, 0} {
			if found != nil {
				break
			}
			c := &bscclient.ClientState{Header: bscclient.Header{Height: latest}, ChainId: 56, Epoch: 200, BlockInteval: 3,
				ContractAddress: p.acct.addr, TrustingPeriod: 1000000}
			for i := 0; i < n; i++ {
				c.Validators = append(c.Validators, crypto.Keccak256([]byte(fmt.Sprintf("validator-%d", i)))[12:])
			}
			if c.GetDelayBlock() == uint64(cfg.Delay) {
				found = c
			}
		}
		if found == nil {
			return nil, info, fmt.Sprintf("no validator set gives the BSC client a block delay of %d", cfg.Delay)
		}
		info["validators"] = len(found.Validators)
		cs = found
	case "eth":
		if raw == nil {
			raw, err = json.Marshal(&ethclient.Proof{Address: hexutil.Encode(p.acct.addr), Balance: hexutil.EncodeBig(p.acct.balance),
				CodeHash: p.acct.codeHash.Hex(), Nonce: hexutil.EncodeUint64(p.acct.nonce), StorageHash: p.storageHash.Hex(),
				AccountProof: hexes(accountProof),
				StorageProof: []*ethclient.StorageResult{{Key: hexutil.Encode(slotLabel), Value: hexutil.Encode(reported), Proof: hexes(storageProof)}}})
		}
		cs = &ethclient.ClientState{Header: ethclient.Header{Height: latest}, ChainId: 1, ContractAddress: p.acct.addr,
			TrustingPeriod: 1000000, TimeDelay: 0, BlockDelay: uint64(cfg.Delay)}
	default:
		return nil, info, "unknown client type " + cfg.Type
	}
	if err != nil {
		w.t.Fatalf("mpt: marshal proof: %v", err)
	}
	info["len"] = len(raw)
	return pCall(cs, ctx, store, cdc, number, raw, q), info, ""
}
