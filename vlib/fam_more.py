"""Families that reuse the core / application specifications with an extra environment action:
   genesis export + re-import (C16), client expiry (C14 packet part), and the determinism twin run (C20)."""
import copy
import json
import os
import shutil
import time

from . import common as C
from . import tracefam as T
from . import families as F
from . import fam_apps as A

T3 = [["A", "B"], ["B", "C"], ["A", "C"]]

GENESIS = copy.deepcopy(F.CORE)
GENESIS.update(name="genesis", design=[],
               gen=dict(module="MCCore.tla", cfgs=[("gen_core_export.cfg", 1.0)], quick=(24, 40), thorough=(240, 60)))
GENESIS_APPS = copy.deepcopy(A.FAM)
GENESIS_APPS.update(name="genesisapps", design=[],
                    gen=dict(module="MCApps.tla", cfgs=[("gen_apps_export.cfg", 1.0)], quick=(16, 40), thorough=(160, 60), timeout=1500))

EXPIRY = copy.deepcopy(F.CORE)
EXPIRY.update(name="expiry", design=[],
              gen=dict(module="MCCore.tla", cfgs=[("gen_core_expire.cfg", 1.0)], quick=(32, 40), thorough=(320, 60)),
              harness=dict(family="core", chains=3, links=T3, params={"short": [["C", "A"]]}))

PROPS = ["C16", "C14"]


def check(prop, tier, seed, replay):
    if prop == "C16":
        if replay:
            return T.replay(prop, GENESIS, replay)
        r = T.merge_runs([(GENESIS, T.run_family(GENESIS, tier, seed)), (GENESIS_APPS, T.run_family(GENESIS_APPS, tier, seed))])
        return T.verdict(prop, GENESIS, tier, seed, r)
    if prop == "C14":
        if replay:
            return T.replay(prop, EXPIRY, replay)
        return T.verdict(prop, EXPIRY, tier, seed, T.run_family(EXPIRY, tier, seed))
    raise C.Inconclusive("no check for %s here" % prop)
