\* design check, as-coded model: Inv_Decision is EXPECTED to fail at once - a header with an over-long logs bloom or nonce
\* passes Header.ValidateBasic (no length checks) and is accepted. The counterexample is the predicted finding.
CONSTANTS
  MaxV = 5
  F_NOWRAP = TRUE
  F_PRUNE_OLD = TRUE
  F_LENGTHS = FALSE
  F_FULLWINDOW = TRUE
  U <- U6
  Epochs = {3}
  StartMults = {2}
  InitSets <- InitSetsSel
  AnnSets <- AnnSetsSel
  Tier = 1
  Gls = {"norm"}
  MaxLen = 2
  MaxOddTimes = 0
  ValidPct = 60
  LOG = FALSE
  SimDepth = 0
INIT Init
NEXT Next
INVARIANTS Inv_Decision
CHECK_DEADLOCK FALSE
