\* behaviour generation where the client of the relay chain B on C (short trusting period) expires at an arbitrary point (C14, C13)
CONSTANTS
  Chains = {"A","B","C"}
  Names = {"A","B","C","Z"}
  Ports = {"mock","nft","ghost"}
  BoundPorts = {"mock","nft","mt"}
  Data = {"d1","d2"}
  DecodableData = {"d2"}
  EmptyData = ""
  AckTags = {"mock","unauth","errX","ok"}
  MaxSeq = 3
  F_BIND = FALSE
  F_ACKCB_SRC_ONLY = TRUE
  F_STATUS = TRUE
  F_RELAY_DST_ERRACK = TRUE
  Links <- Links3
  RuleSets <- RuleSetsGen
  Senders = {"A"}
  Dests = {"C"}
  UserRelays = {"","B"}
  UserPorts = {"mock"}
  UserData = {"d1","d2"}
  RuleChains = {"A","B","C"}
  AdvOn = TRUE
  ExpirePairs <- ExpireCB
  ExportOn = FALSE
  LOG = TRUE
  SimDepth = 40
  SimMode = "mixed"
INIT Init
NEXT NextSim
INVARIANT PrintBehaviour
CHECK_DEADLOCK FALSE
