\* trace validation of the routing family: the code's length bound
CONSTANTS
  MaxLen = 64
SPECIFICATION TraceSpec
INVARIANT Done
CHECK_DEADLOCK FALSE
