----------------------------- MODULE StatusClient -----------------------------
(***************************************************************************)
(* C14, status part: a light client whose newest trusted state is older     *)
(* than its trusting period - measured against the chain's block time in    *)
(* the client's own time unit (Tendermint: nanoseconds; BSC, ETH: seconds)  *)
(* - reports Expired, one inside the period reports Active.  Exactly at the *)
(* boundary the statement allows either answer.  A case is                  *)
(*   [t (client type), p (period, s), age (whole seconds between the newest *)
(*    trusted state and the block time), sub (sub-second part of the block  *)
(*    time, ns), lag (seconds between the trusted state's own time and the *)
(*    moment this chain stored it)].                                        *)
(* A pure decision: the TLA+ contributes the exhaustive case grid and the   *)
(* oracle, not interleavings.                                               *)
(***************************************************************************)
EXTENDS Integers, Sequences, FiniteSets, TLC, Json, SequencesExt

CONSTANTS Types, Periods, AgeOffsets, BigAges, Subs, SimDepth
VARIABLES evlog

\* negative ages: the newest trusted state carries a time AHEAD of this chain's block time (the counterparty's clock runs
\* ahead, within the accepted drift, or this chain's blocks are slow): such a client is inside its trusting period
AheadAges == {0 - 1, 0 - 5, 0 - 100}
Ages(p) == {a \in {p + o - 2 : o \in AgeOffsets} : TRUE} \cup {0} \cup {10 * p} \cup BigAges \cup AheadAges   \* offsets are shifted by 2: 1 = p-1, 2 = p, 3 = p+1
\* lag: how long after its own timestamp the newest trusted state was stored on this chain (a late relayer); the
\* statement measures the age of the trusted state itself, so the answer must not depend on it
Lags(a) == IF a > 0 THEN {0, a} ELSE {0}
AllCases == UNION {UNION {{[act |-> "Status", c |-> "A", t |-> t, p |-> p, age |-> a, sub |-> s, lag |-> g] :
                             t \in Types, s \in Subs, g \in Lags(a)} : a \in Ages(p)} : p \in Periods}

\* the set of answers the property allows for a case
Allowed(e) ==
  IF e.t = "tm"
  THEN (IF e.age > e.p \/ (e.age = e.p /\ e.sub > 0) THEN {"Expired"}
        ELSE IF e.age = e.p THEN {"Expired", "Active"} ELSE {"Active"})
  ELSE (IF e.age > e.p THEN {"Expired"} ELSE IF e.age = e.p THEN {"Expired", "Active"} ELSE {"Active"})

\* sanity of the oracle itself, checked exhaustively: expiry is monotone in the age and every case has an answer
Inv_Monotone == \A x, y \in AllCases :
                  (x.t = y.t /\ x.p = y.p /\ x.sub = y.sub /\ x.age < y.age /\ Allowed(x) = {"Expired"}) => Allowed(y) = {"Expired"}
Inv_Total == \A x \in AllCases : Allowed(x) # {}

Init == evlog = <<>>
Next == \E c \in AllCases : evlog' = <<c>>
NextSim == LET rest == AllCases \ {evlog[i] : i \in DOMAIN evlog} IN
           rest # {} /\ evlog' = Append(evlog, RandomElement(rest))
\* printed once, when every case of the grid has been emitted (SimDepth only bounds the walk)
PrintBehaviour == (Len(evlog) > 1 /\ AllCases = {evlog[i] : i \in DOMAIN evlog}) => PrintT(<<"BEH", ToJson(evlog)>>)
=============================================================================
