package harness

import (
	"crypto/sha256"
	"encoding/hex"
	"encoding/json"
	"fmt"
	"sort"
	"strings"
	"testing"

	storetypes "cosmossdk.io/store/types"
	abci "github.com/cometbft/cometbft/abci/types"
	sdk "github.com/cosmos/cosmos-sdk/types"
	mttypes "mods.irisnet.org/modules/mt/types"
	nfttypes "mods.irisnet.org/modules/nft/types"

	mttransfertypes "github.com/bianjieai/tibc-go/modules/tibc/apps/mt_transfer/types"
	nfttransfertypes "github.com/bianjieai/tibc-go/modules/tibc/apps/nft_transfer/types"
)

// Apps concretises the application events of TibcApps (NFT and multi-token transfers) and projects the real
// token ledgers of every chain.
type Apps struct {
	r      *Runner
	byHash map[string]*AppData // sha256(packet data) -> abstract record
	Unit   uint64              // real amount of one model unit
	// multi-token natives: abstract name <-> real generated id (sha256 of a per-chain sequence: equal on all chains)
	mtDenomReal map[string]string
	mtDenomAbs  map[string]string
	mtIDReal    map[string]string
	mtIDAbs     map[string]string
	// packets as really announced by send_packet events, by src|dst|seq (the first announcement, i.e. the source's)
	sentByKey map[string]*Pkt
}

const badReceiver = "not-a-bech32-address"

func NewApps(r *Runner, unit uint64) *Apps {
	return &Apps{r: r, byHash: map[string]*AppData{}, Unit: unit, mtDenomReal: map[string]string{}, mtDenomAbs: map[string]string{},
		mtIDReal: map[string]string{}, mtIDAbs: map[string]string{}}
}

// accounts: u1 -> SenderAccounts[1], u2 -> SenderAccounts[2] of the chain at hand
func (a *Apps) userIdx(u string) int {
	switch u {
	case "u1":
		return 1
	case "u2":
		return 2
	case "u3":
		return 3
	}
	return -1
}

func (a *Apps) addr(c, u string) string {
	i := a.userIdx(u)
	if i < 0 {
		if u == "" {
			return ""
		}
		return badReceiver
	}
	return a.r.N.Chains[c].SenderAccounts[i].SenderAccount.GetAddress().String()
}

// absAddr maps a bech32 address back to the abstract account name; addresses of any chain are recognised.
func (a *Apps) absAddr(s string) string {
	if s == "" {
		return ""
	}
	for _, c := range a.r.N.Names {
		ch := a.r.N.Chains[c]
		for _, u := range []string{"u1", "u2", "u3"} {
			if ch.SenderAccounts[a.userIdx(u)].SenderAccount.GetAddress().String() == s {
				return u
			}
		}
		if ch.App.NftTransferKeeper.GetNftTransferModuleAddr(nfttransfertypes.ModuleName).String() == s ||
			ch.App.MtTransferKeeper.GetMtTransferModuleAddr(mttransfertypes.ModuleName).String() == s {
			return "esc"
		}
	}
	return "bad"
}

// segment abstraction: chain names, generated multi-token denom ids
func (a *Apps) absSeg(s string) string {
	if x, ok := a.r.N.Abs[s]; ok {
		return x
	}
	if x, ok := a.mtDenomAbs[s]; ok {
		return x
	}
	return s
}

func (a *Apps) realSeg(s string) string {
	if x, ok := a.r.N.Real[s]; ok {
		return x
	}
	if x, ok := a.mtDenomReal[s]; ok {
		return x
	}
	return s
}

func (a *Apps) realPath(segs []string) string {
	out := make([]string, len(segs))
	for i, s := range segs {
		out[i] = a.realSeg(s)
	}
	return strings.Join(out, "/")
}

func (a *Apps) absPath(p string) []string {
	segs := strings.Split(p, "/")
	for i := range segs {
		segs[i] = a.absSeg(segs[i])
	}
	return segs
}

// realClass turns ["n"|"v", segs...] into the class string used on a chain.
func (a *Apps) realClass(k string, cls []string) string {
	if len(cls) < 2 {
		return "zzzmissing"
	}
	p := a.realPath(cls[1:])
	if cls[0] == "v" {
		if k == "nft" {
			return nfttransfertypes.ParseClassTrace(p).IBCClass()
		}
		return mttransfertypes.ParseClassTrace(p).IBCClass()
	}
	return p
}

// absClass turns the class string of chain c into ["n"|"v", segs...].
func (a *Apps) absClass(c, k, class string) []string {
	ch := a.r.N.Chains[c]
	if strings.HasPrefix(class, "tibc-") {
		hx := class[len("tibc-"):]
		var full string
		if k == "nft" {
			if h, err := nfttransfertypes.ParseHexHash(hx); err == nil {
				if tr, ok := ch.App.NftTransferKeeper.GetClassTrace(ch.GetContext(), h); ok {
					full = tr.GetFullClassPath()
				}
			}
		} else {
			if h, err := mttransfertypes.ParseHexHash(hx); err == nil {
				if tr, ok := ch.App.MtTransferKeeper.GetClassTrace(ch.GetContext(), h); ok {
					full = tr.GetFullClassPath()
				}
			}
		}
		if full == "" {
			return []string{"v", "?" + hx[:8]}
		}
		return append([]string{"v"}, a.absPath(full)...)
	}
	return append([]string{"n"}, a.absPath(class)...)
}

func (a *Apps) absID(k, id string) string {
	if k == "mt" {
		if x, ok := a.mtIDAbs[id]; ok {
			return x
		}
	}
	return id
}

func (a *Apps) realID(k, id string) string {
	if k == "mt" {
		if x, ok := a.mtIDReal[id]; ok {
			return x
		}
	}
	return id
}

func (a *Apps) units(v uint64) int64 {
	if a.Unit == 0 || v%a.Unit != 0 || v/a.Unit > 1000000 {
		return -1 // not a whole number of units: wrap-around or corruption
	}
	return int64(v / a.Unit)
}

// encode builds real packet data bytes from the abstract record (used for relayer messages).
func (a *Apps) encode(d *AppData, src, dst string, seq uint64) []byte {
	// the exact bytes of the packet sent under this key are used when the record is the one that was sent;
	// otherwise (altered record) the bytes are rebuilt: sender = account of the source chain, receiver = account
	// of the destination chain, as the applications do it.
	if b, ok := a.lookupBytes(d, src, dst, seq); ok {
		return b
	}
	cls := a.realPath(d.Cls)
	var bz []byte
	snd, rcv := a.anyAddr(d.Snd), a.anyAddr(d.Rcv)
	if _, ok := a.r.N.Chains[src]; ok {
		snd = a.addr(src, d.Snd)
	}
	if _, ok := a.r.N.Chains[dst]; ok {
		rcv = a.addr(dst, d.Rcv)
	}
	if d.K == "nft" {
		bz = nfttransfertypes.NewNonFungibleTokenPacketData(cls, d.ID, "", snd, rcv, d.Away, "").GetBytes()
	} else {
		amt := uint64(0)
		if d.Amt > 0 {
			amt = uint64(d.Amt) * a.Unit
		}
		bz = mttransfertypes.NewMultiTokenPacketData(cls, a.realID("mt", d.ID), snd, rcv, d.Away, "", amt, nil).GetBytes()
	}
	return bz
}

func (a *Apps) anyAddr(u string) string {
	if u == "" {
		return ""
	}
	if a.userIdx(u) < 0 {
		return badReceiver
	}
	return a.addr(a.r.N.Names[0], u)
}

// exact bytes of packets seen in send_packet events, keyed by the JSON of their abstract record
var _ = sort.Strings

func pktKey(src, dst string, seq uint64, d *AppData) string {
	k, _ := json.Marshal(d)
	return fmt.Sprintf("app:%s|%s|%d|%s", src, dst, seq, k)
}

func (a *Apps) lookupBytes(d *AppData, src, dst string, seq uint64) ([]byte, bool) {
	b, ok := a.r.Tags.data[pktKey(src, dst, seq, d)]
	return b, ok
}

// register remembers the exact bytes of a packet announced by a send_packet event.
func (a *Apps) register(src, dst string, seq uint64, relay, port string, b []byte) {
	if rec := a.decode(b, port); rec != nil {
		a.r.Tags.data[pktKey(src, dst, seq, rec)] = append([]byte{}, b...)
		if a.sentByKey == nil {
			a.sentByKey = map[string]*Pkt{}
		}
		k := fmt.Sprintf("%s|%s|%d", src, dst, seq)
		if _, ok := a.sentByKey[k]; !ok {
			a.sentByKey[k] = &Pkt{Src: src, Dst: dst, Relay: relay, Port: port, Seq: seq, Data: DataVal{Rec: rec}}
		}
	}
}

// Honest returns the packet an honest relayer would present for ev's packet key: what the source chain really
// announced. Genuine (unaltered) relayer messages of a behaviour are generated from the specification's view of the
// sent packets; if the code sent something else, the relayer still relays what was really sent.
func (a *Apps) Honest(ev *Event) bool {
	if ev.Pkt == nil || (ev.Tag != "" && ev.Tag != "gen" && ev.Tag != "replay") || ev.Pkt.Data.Rec == nil {
		return false
	}
	real, ok := a.sentByKey[fmt.Sprintf("%s|%s|%d", ev.Pkt.Src, ev.Pkt.Dst, ev.Pkt.Seq)]
	if !ok {
		return false
	}
	x, _ := json.Marshal(real)
	y, _ := json.Marshal(ev.Pkt)
	if string(x) == string(y) {
		return false
	}
	cp := *real
	ev.Pkt = &cp
	return true
}

// decode abstracts real packet data bytes sent on port (abstract port name); nil if the port's application
// cannot decode them or the port is not an application port.
func (a *Apps) decode(b []byte, port string) *AppData {
	var rec *AppData
	switch port {
	case "nft":
		var d nfttransfertypes.NonFungibleTokenPacketData
		if err := d.Unmarshal(b); err != nil || d.Class == "" {
			return nil
		}
		rec = &AppData{K: "nft", Cls: a.absPath(d.Class), ID: d.Id, Snd: a.absAddr(d.Sender), Rcv: a.absAddr(d.Receiver), Away: d.AwayFromOrigin, Amt: 1}
	case "mt":
		var d mttransfertypes.MultiTokenPacketData
		if err := d.Unmarshal(b); err != nil || d.Class == "" {
			return nil
		}
		rec = &AppData{K: "mt", Cls: a.absPath(d.Class), ID: a.absID("mt", d.Id), Snd: a.absAddr(d.Sender), Rcv: a.absAddr(d.Receiver), Away: d.AwayFromOrigin, Amt: a.units(d.Amount)}
	default:
		return nil
	}
	h := sha256.Sum256(b)
	a.byHash[hex.EncodeToString(h[:])] = rec
	return rec
}

// project adds the token ledgers of chain x to cs.
func (a *Apps) project(x string, cs *ChainState) {
	ch := a.r.N.Chains[x]
	ctx := ch.GetContext()
	cols, err := ch.App.NftKeeper.GetCollections(ctx)
	if err == nil {
		for _, col := range cols {
			cls := a.absClass(x, "nft", col.Denom.Id)
			cs.Den = append(cs.Den, cls)
			for _, t := range col.NFTs {
				cs.Nft = append(cs.Nft, []interface{}{cls, t.Id, a.absAddr(t.Owner)})
			}
		}
	}
	owners := map[string]sdk.AccAddress{"esc": ch.App.MtTransferKeeper.GetMtTransferModuleAddr(mttransfertypes.ModuleName)}
	for _, u := range []string{"u1", "u2", "u3"} {
		owners[u] = ch.SenderAccounts[a.userIdx(u)].SenderAccount.GetAddress()
	}
	for _, d := range ch.App.MtKeeper.GetDenoms(ctx) {
		cls := a.absClass(x, "mt", d.Id)
		for _, m := range ch.App.MtKeeper.GetMTs(ctx, d.Id) {
			id := a.absID("mt", m.GetID())
			cs.Sup = append(cs.Sup, []interface{}{cls, id, a.units(ch.App.MtKeeper.GetMTSupply(ctx, d.Id, m.GetID()))})
			for _, u := range []string{"esc", "u1", "u2", "u3"} {
				if b := ch.App.MtKeeper.GetBalance(ctx, d.Id, m.GetID(), owners[u]); b != 0 {
					cs.Mt = append(cs.Mt, []interface{}{cls, id, u, a.units(b)})
				}
			}
		}
	}
	for _, k := range []string{"nft", "mt"} {
		key := ch.App.GetKey(map[string]string{"nft": nfttransfertypes.StoreKey, "mt": mttransfertypes.StoreKey}[k])
		if key == nil {
			continue
		}
		it := storetypes.KVStorePrefixIterator(ch.App.CommitMultiStore().GetKVStore(key), []byte{0x01})
		for ; it.Valid(); it.Next() {
			full := ""
			if k == "nft" {
				var t nfttransfertypes.ClassTrace
				if t.Unmarshal(it.Value()) == nil {
					full = t.GetFullClassPath()
				}
			} else {
				var t mttransfertypes.ClassTrace
				if t.Unmarshal(it.Value()) == nil {
					full = t.GetFullClassPath()
				}
			}
			cs.Tr = append(cs.Tr, a.absPath(full))
		}
		it.Close()
	}
}

// StepApps executes one event of the apps family.
func (r *Runner) StepApps(ev *Event) *Rec {
	a := r.Apps
	n := r.N
	switch ev.Act {
	case "Mint":
		c := n.Chains[ev.C]
		ui := a.userIdx(ev.U)
		me := a.addr(ev.C, ev.U)
		var res *abci.ExecTxResult
		if ev.K == "nft" {
			class := a.realClass("nft", ev.Cls)
			if !c.App.NftKeeper.HasDenom(c.GetContext(), class) {
				res = n.Deliver(ev.C, ui, nfttypes.NewMsgIssueDenom(class, "name", "", me, "", false, false, "", "", "", ""))
				if res.Code != 0 {
					return r.emit(ev, res, nil)
				}
			}
			res = n.Deliver(ev.C, ui, nfttypes.NewMsgMintNFT(ev.ID, class, "", "", "", "", me, me))
		} else {
			// multi-token natives get generated ids; the behaviour names them in issuing order
			dn := ev.Cls[1]
			real, known := a.mtDenomReal[dn]
			if !known || !c.App.MtKeeper.HasDenom(c.GetContext(), real) {
				before := map[string]bool{}
				for _, d := range c.App.MtKeeper.GetDenoms(c.GetContext()) {
					before[d.Id] = true
				}
				res = n.Deliver(ev.C, ui, mttypes.NewMsgIssueDenom("name", "", me))
				if res.Code != 0 {
					return r.emit(ev, res, nil)
				}
				for _, d := range c.App.MtKeeper.GetDenoms(c.GetContext()) {
					if !before[d.Id] {
						real = d.Id
					}
				}
				if prev, ok := a.mtDenomReal[dn]; ok && prev != real {
					n.T.Fatalf("multi-token denom %s maps to two ids (%s, %s): behaviours must issue natives in order", dn, prev, real)
				}
				a.mtDenomReal[dn], a.mtDenomAbs[real] = real, dn
			}
			realID, idKnown := a.mtIDReal[ev.ID]
			if idKnown && c.App.MtKeeper.HasMT(c.GetContext(), real, realID) {
				res = n.Deliver(ev.C, ui, mttypes.NewMsgMintMT(realID, real, uint64(ev.Amt)*a.Unit, "", me, me))
			} else {
				before := map[string]bool{}
				for _, m := range c.App.MtKeeper.GetMTs(c.GetContext(), real) {
					before[m.GetID()] = true
				}
				res = n.Deliver(ev.C, ui, mttypes.NewMsgMintMT("", real, uint64(ev.Amt)*a.Unit, "", me, me))
				if res.Code == 0 {
					for _, m := range c.App.MtKeeper.GetMTs(c.GetContext(), real) {
						if !before[m.GetID()] {
							if prev, ok := a.mtIDReal[ev.ID]; ok && prev != m.GetID() {
								n.T.Fatalf("multi-token id %s maps to two ids: behaviours must mint ids in order", ev.ID)
							}
							a.mtIDReal[ev.ID], a.mtIDAbs[m.GetID()] = m.GetID(), ev.ID
						}
					}
				}
			}
		}
		return r.emit(ev, res, nil)
	case "Xfer":
		ui := a.userIdx(ev.U)
		me, to := a.addr(ev.C, ev.U), a.addr(ev.C, ev.To)
		var msg sdk.Msg
		if ev.K == "nft" {
			msg = nfttypes.NewMsgTransferNFT(ev.ID, a.realClass("nft", ev.Cls), nfttypes.DoNotModify, nfttypes.DoNotModify, nfttypes.DoNotModify, nfttypes.DoNotModify, me, to)
		} else {
			msg = mttypes.NewMsgTransferMT(a.realID("mt", ev.ID), a.realClass("mt", ev.Cls), me, to, uint64(ev.Amt)*a.Unit)
		}
		return r.emit(ev, n.Deliver(ev.C, ui, msg), nil)
	case "AppSend":
		ui := a.userIdx(ev.U)
		me := a.addr(ev.C, ev.U)
		rcv := a.anyAddr(ev.Rcv)
		if _, ok := n.Chains[ev.Dst]; ok {
			rcv = a.addr(ev.Dst, ev.Rcv)
		}
		var msg sdk.Msg
		if ev.K == "nft" {
			msg = nfttransfertypes.NewMsgNftTransfer(a.realClass("nft", ev.Cls), ev.ID, me, rcv, n.R(ev.Dst), n.R(ev.Relay), "")
		} else {
			msg = mttransfertypes.NewMsgMtTransfer(a.realClass("mt", ev.Cls), a.realID("mt", ev.ID), me, rcv, n.R(ev.Dst), n.R(ev.Relay), "", uint64(ev.Amt)*a.Unit)
		}
		return r.emit(ev, n.Deliver(ev.C, ui, msg), nil)
	}
	return r.StepCore(ev)
}

func init() {
	Families["apps"] = func(t *testing.T, inp *Input, tr int, beh []json.RawMessage, out func(interface{})) {
		var params struct {
			Unit uint64 `json:"unit"`
		}
		if len(inp.Params) > 0 {
			_ = json.Unmarshal(inp.Params, &params)
		}
		if params.Unit == 0 {
			params.Unit = 1
		}
		nt := NewNet(t, inp.Chains, inp.Links)
		r := &Runner{N: nt, Tags: NewTags(), tr: tr}
		r.Apps = NewApps(r, params.Unit)
		r.Out = func(rec *Rec) { out(rec) }
		r.InstallHook()
		r.StepCore(&Event{Act: "Reset"})
		for _, raw := range beh {
			var ev Event
			if err := json.Unmarshal(raw, &ev); err != nil {
				t.Fatalf("bad event %s: %v", raw, err)
			}
			r.StepApps(&ev)
		}
	}
}

var _ = fmt.Sprintf
