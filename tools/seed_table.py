#!/usr/bin/env python3
"""Merges my confirmation / detection results into seeded/<id>/meta.json and prints the DESIGN.md table."""
import json, os, glob
RES = {
 "C01-a": dict(first="caught", by=["C01: accepted_not_sent / accepted_not_committed_on_proving_chain", "C11: forwarded_packet_also_acknowledged"], strengthened=""),
 "C02-a": dict(first="missed by C02 (caught by C10: clean_not_above_previous, clean_point_decreased)", by=["C02: recv_callback_repeated", "C10"], strengthened="replay generation mode + fixed behaviour 'lifecycle with replays of every earlier message' (behaviours/core/regress.json#3,#4)"),
 "C03-a": dict(first="missed by C03 (caught by C11: forwarded_packet_also_acknowledged)", by=["C03: ack_overwritten_or_lost", "C11"], strengthened="fixed behaviour 'rules change after refusal, refused message replayed' (behaviours/core/regress.json#5, behaviours/apps/regress.json#6)"),
 "C04-a": dict(first="missed (divergences only: the genuine relay messages were generated from the specification's packet, not the one really sent)", by=["C04: escrow_released_to_wrong_claimant, asset_not_held_exactly_once"], strengthened="relay chains over all chains in generation; honest relayer relays what was really sent (harness/apps.go Honest); fixed behaviour 'same class/id native on two chains, voucher forwarded through its previous hop' (behaviours/apps/regress.json#7)"),
 "C05-a": dict(first="missed (only the global conservation formula existed)", by=["C05: escrow_differs_from_vouchers_and_in_flight"], strengthened="escrow = downstream voucher supply + units in flight (TraceApps BadEscrow)"),
 "C06-a": dict(first="caught", by=["C06: refund_not_processed (voucher), refund_not_exact (mt:voucher)"], strengthened=""),
 "C09-a": dict(first="missed (no send named an unknown relay chain with a known destination)", by=["C09: invalid_send_accepted (core and app)"], strengthened="BadSendEvents / application sends with relay chain Z; formula invalid_send_accepted for application sends"),
 "C10-a": dict(first="missed (needs two-digit sequences)", by=["C10: clean_over_unacknowledged_packet"], strengthened="generation mode 'long': one channel, up to 13 sequences, out-of-order acknowledgements"),
 "C11-a": dict(first="caught", by=["C11: forwarded_packet_also_acknowledged"], strengthened=""),
 "C13-a": dict(first="no family let the relay chain's client expire", by=["C14: accepted_through_expired_client", "C01: accepted_not_committed_on_proving_chain (C13's own formula is silent: the packet fields are unchanged)"], strengthened="family expiryrelay: client of B on C has a short trusting period (gen_core_expire_relay.cfg)"),
 "C14-a": dict(first="missed (status grid wrote no processed time)", by=["C14: status_Active_but_past_period (tm:*:stored_late)"], strengthened="status grid dimension lag: the newest trusted state was stored late"),
 "C16-a": dict(first="missed (relayers only ever registered together with a client)", by=["C16: state_differs_after_export_import (tibc:relayers…:lost)"], strengthened="RegisterRelayer events (also for chain names without client) in the genesis family"),
 "C19-a": dict(first="caught", by=["C19: error_ack_changed_token_state"], strengthened=""),
 "C07-a": dict(first="caught", by=["C07: accepted_but_rule_rejects (revision)"], strengthened=""),
 "C17-a": dict(first="caught", by=["C17: validator_set_not_as_announced (switched_early / not_switched_when_due)"], strengthened=""),
}
extra = '/verif/tools/seed_results_extra.json'
if os.path.exists(extra):
    RES.update(json.load(open(extra)))
rows = []
for d in sorted(glob.glob('/verif/seeded/*/')):
    sid = os.path.basename(d.rstrip('/'))
    mp = os.path.join(d, 'meta.json')
    m = json.load(open(mp))
    r = RES.get(sid)
    if r:
        m['confirmed_by_integrator'] = dict(scratch_worktree=True, demo_passes_without=True, demo_fails_with=True, builds=True,
                                            suite_with_change="359/359 baseline tests pass (tools/confirm_seed.sh)")
        m['detection'] = dict(quick_tier_seed_1_first_attempt=r['first'], reported_by=r['by'], machinery_strengthened=r['strengthened'],
                              how_run="tools/mutant_run.sh <name> seeded/%s/patch.diff quick <props> (scratch worktree of /repo + copy of /verif; /repo untouched)" % sid)
        json.dump(m, open(mp, 'w'), indent=1)
    rows.append("| %s | %s | %s | %s | %s |" % (sid, m.get('property'), m.get('summary', '')[:170].replace('|', '/'),
                                              (r or {}).get('first', 'not run yet'), '; '.join((r or {}).get('by', []))[:160]))
print("| seed | property | change | first attempt (quick, seed 1) | reported by (final) |\n|---|---|---|---|---|")
print("\n".join(rows))
