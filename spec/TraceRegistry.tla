---------------------------- MODULE TraceRegistry ----------------------------
(***************************************************************************)
(* Trace specification of the registry family (property C15).  trace.ndjson *)
(* holds one record per message executed on the REAL code by                *)
(* harness/registry.go: the event, the result code, the projection of the   *)
(* real registry (clients, relayers, rules), a digest of the whole tibc     *)
(* store and one digest per client sub-store.                               *)
(* bad (p = "C15"): a sentence of C15 is false on a real step, or the real  *)
(* outcome differs from Registry!StepRes in the direction the sentence      *)
(* fixes.  div: any other difference from Registry!StepRes.                 *)
(***************************************************************************)
EXTENDS Registry, Json, TLC

CONSTANTS Names

TraceLog == ndJsonDeserialize("trace.ndjson")

VARIABLES l, st, dig, cdig, bad, div, nsteps
tvars == <<l, st, dig, cdig, bad, div, nsteps>>

SetOf(t) == {t[i] : i \in DOMAIN t}
ConvState(j) == [clients |-> SetOf(j.clients), relayers |-> SetOf(j.relayers), rules |-> j.rules]
ConvEv(ev) == IF ev.act = "RegisterRelayer" THEN [ev EXCEPT !.relayers = SetOf(@)] ELSE ev

TraceInit ==
  /\ l = 1 /\ bad = {} /\ div = {} /\ nsteps = 0
  /\ st = ConvState(TraceLog[1].st)
  /\ dig = TraceLog[1].dig
  /\ cdig = TraceLog[1].cdig

Lbl(f, detail) == [p |-> "C15", f |-> f, d |-> detail]
If(cond, x)    == IF cond THEN {x} ELSE {}

\* e = event, okR = the real code accepted, post = real state afterwards, rec = raw record, pred = the specification's step
Violations(e, okR, post, rec, pred) ==
  LET changed  == post # st \/ rec.dig # dig
      governed == e.act \in Governed
      sc       == SignerClass(st, e)
      pc       == IF e.act \in {"CreateClient", "UpgradeClient"} THEN PayloadClass(st, e) ELSE ""
  IN
     \* took effect although the authority did not ask for it
     If(governed /\ ~Authorised(e) /\ (okR \/ changed),
        Lbl("took_effect_without_authority", e.act \o ":" \o sc \o ":authority_named_" \o e.as))
     \* a refused request changes nothing (projection and raw bytes)
\cup If(~okR /\ changed, Lbl("refused_but_changed", e.act))
     \* creating a client never overwrites an existing one
\cup If(e.act = "CreateClient" /\ HasClient(st, e.name) /\
          (~HasClient(post, e.name) \/ ClientOf(post, e.name) # ClientOf(st, e.name) \/ rec.cdig[e.name] # cdig[e.name]),
        Lbl("create_overwrote_client", pc))
     \* a client's type never changes, whatever the message
\cup {Lbl(IF e.act = "UpgradeClient" THEN "upgrade_changed_type" ELSE "client_type_changed",
          e.act \o ":" \o TypeOf(st, n) \o "->" \o (IF HasClient(post, n) THEN TypeOf(post, n) ELSE "none")) :
        n \in {m \in Names : HasClient(st, m) /\ TypeOf(post, m) # TypeOf(st, m)}}
     \* header updates only by a relayer registered for that chain
\cup If(e.act = "UpdateClient" /\ (okR \/ changed) /\ e.signer \notin RelayersOf(st, e.name),
        Lbl("update_by_unregistered_relayer", sc))
     \* the other direction: what C15 grants is not withheld
\cup If(governed /\ pred.ok /\ ~okR, Lbl("authority_request_refused", e.act \o ":" \o pc))
\cup If(e.act = "UpdateClient" /\ pred.ok /\ ~okR, Lbl("registered_relayer_update_refused", e.header))

Divergence(e, okR, post, rec, pred) ==
     If(pred.ok # okR, [f |-> "outcome", d |-> e.act \o ": " \o (IF pred.ok THEN "spec accepts, code refuses"
                                                                  ELSE "spec refuses (" \o pred.why \o "), code accepts")])
\cup If(pred.ok = okR /\ pred.st # post, [f |-> "post_state", d |-> e.act])
\cup If(rec.nrel # Cardinality({x[1] : x \in post.relayers}), [f |-> "relayer_entry_under_unknown_name", d |-> e.act])

TraceStep ==
  /\ l < Len(TraceLog)
  /\ l' = l + 1
  /\ LET rec == TraceLog[l + 1]  post == ConvState(rec.st) IN
     /\ st' = post /\ dig' = rec.dig /\ cdig' = rec.cdig
     /\ IF rec.ev.act = "Reset" THEN UNCHANGED <<bad, div, nsteps>>
        ELSE LET e    == ConvEv(rec.ev)
                 okR  == rec.code = 0
                 pred == StepRes(st, e, rec.ev.info.h)
                 V    == Violations(e, okR, post, rec, pred)
             IN  /\ nsteps' = nsteps + 1
                 /\ bad' = bad \cup {[tr |-> rec.tr, i |-> rec.i, v |-> v] : v \in V}
                 /\ div' = div \cup (IF V = {} THEN {[tr |-> rec.tr, i |-> rec.i, v |-> v] : v \in Divergence(e, okR, post, rec, pred)} ELSE {})

TraceNext == TraceStep
TraceSpec == TraceInit /\ [][TraceNext]_tvars

Done == (l = Len(TraceLog)) => JsonSerialize("result.json", [n |-> l, steps |-> nsteps, bad |-> bad, div |-> div])
=============================================================================
