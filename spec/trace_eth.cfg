\* trace validation; F_RESTRICT describes RestrictChain in the CURRENT tree (FALSE = as coded, S15 open)
CONSTANTS
  F_RESTRICT = TRUE
SPECIFICATION TraceSpec
INVARIANT Done
CHECK_DEADLOCK FALSE
