#!/bin/bash
# usage: confirm_seed.sh <seed dir name under /verif/seeded>   e.g. C01-a
# Confirms in a scratch worktree: demo passes without the change, the change builds, demo fails with it,
# and the repository's own suite (guard off) still passes the BASELINE list with the change.
set -u
id=$1; sd=/verif/seeded/$id; wt=/tmp/confirm-$id
export GOFLAGS=-mod=mod GOPROXY=off GOSUMDB=off GOTOOLCHAIN=local
rm -rf $wt; git -C /repo worktree prune; git -C /repo worktree add --detach $wt HEAD -q || exit 3
run=$(cat $sd/RUN 2>/dev/null | tr '\n' ' ')
# where does the demo go: take the package dir from the RUN file (first path containing modules/ or simapp)
pkg=$(grep -o 'modules/[A-Za-z0-9_/.-]*' $sd/RUN | head -1 | sed 's#/zz_seed_demo_test.go##; s#/$##')
[ -d "$wt/$pkg" ] || pkg=$(dirname $(grep -l "" $sd/zz_seed_demo_test.go >/dev/null; grep -o 'modules/[A-Za-z0-9_/.-]*' $sd/meta.json | head -1))
pkgname=$(head -5 $sd/zz_seed_demo_test.go | grep '^package' | awk '{print $2}')
echo "seed $id: demo package dir = $pkg (package $pkgname)"
cp $sd/zz_seed_demo_test.go $wt/$pkg/
tname=$(grep -o 'func Test[A-Za-z0-9_]*' $sd/zz_seed_demo_test.go | head -1 | sed 's/func //')
res() { (cd $wt && go test -mod=mod -tags verif -vet=off -count=1 -run "^(TestSeedDemo|$tname)" ./$pkg/ 2>&1 | tail -3 | tr '\n' ' '); }
r1=$(res); echo "  demo without change: $r1"
git -C $wt apply $sd/patch.diff || { echo "  PATCH DOES NOT APPLY"; git -C /repo worktree remove --force $wt; exit 1; }
(cd $wt && go build ./... ) && echo "  builds with change: yes" || echo "  builds with change: NO"
r2=$(res); echo "  demo with change: $r2"
rm -f $wt/$pkg/zz_seed_demo_test.go
(cd $wt && go test -mod=mod -json -vet=off -count=1 -timeout 25m ./... > /tmp/confirm-$id.json 2>/dev/null)
python3 - /tmp/confirm-$id.json <<'PY'
import json,sys
base=json.load(open('/root/.vp/BASELINE.json'))['stable_pass']
passed=set()
for l in open(sys.argv[1]):
    try: r=json.loads(l)
    except Exception: continue
    if r.get('Action')=='pass' and r.get('Test'): passed.add(r['Package']+'::'+r['Test'])
missing=[t for t in base if t not in passed]
print("  suite with change: %d/%d baseline tests pass%s" % (len(base)-len(missing), len(base), "" if not missing else " MISSING "+str(missing[:5])))
PY
git -C /repo worktree remove --force $wt; rm -f /tmp/confirm-$id.json
