"""Family "registry": property C15 (privileged operations: create / upgrade client, register relayers,
set routing rules only by the governance authority; header updates only by a registered relayer).

Pipeline (vlib/tracefam.py): exhaustive TLC check of spec/Registry.tla's step operator against the sentences
of C15 -> TLC simulation of message type x signer x payload histories -> harness/registry.go (authority
messages on the real MsgServer, everything else as signed transactions through BaseApp) ->
spec/TraceRegistry.tla."""
from . import tracefam as T

PROPS = ["C15"]

FAM = dict(
    name="registry",
    design=[
        dict(role="intended", module="MCRegistry.tla", cfg="registry_design.cfg",
             overrides_quick={}, overrides_thorough={"Accts": '{"a1","a2","a3"}', "Types": '{"tm","bsc","eth"}',
                                                     "Payloads": '{"valid","garbage","wrongkind"}'}),
    ],
    gen=dict(module="MCRegistry.tla", cfgs=[("gen_registry.cfg", 1.0)], quick=(64, 30), thorough=(640, 50), timeout=1500),
    trace=dict(module="TraceRegistry.tla", cfg="trace_registry.cfg"),
    harness=dict(family="registry", chains=3, links=[]),
    assumptions=[
        "the governance module account has no key: its messages are handed to the real MsgServer (after a codec round trip and "
        "ValidateBasic) on a branched context; the gov proposal machinery (deposit, vote, execution) is not exercised",
        "everything not signed by the authority is a real signed transaction through BaseApp (ante handlers, signature check, message router)",
        "client payloads: genuine Tendermint states/headers of two live test chains; BSC and ETH client states are synthetic but pass the "
        "code's own Validate/Initialize; header updates are exercised for Tendermint clients only (BSC/ETH: properties C17/C18)",
        "cosmos-sdk BaseApp, the simapp wiring (authority = gov module address), TLC and the harness projection are trusted",
    ],
)


def check(prop, tier, seed, replay):
    if replay:
        return T.replay(prop, FAM, replay)
    r = T.run_family(FAM, tier, seed)
    return T.verdict(prop, FAM, tier, seed, r)
