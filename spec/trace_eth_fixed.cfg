\* trace validation against a tree in which RestrictChain is repaired (VERIF_ETH_TREE=fixed)
CONSTANTS
  F_RESTRICT = TRUE
SPECIFICATION TraceSpec
INVARIANT Done
CHECK_DEADLOCK FALSE
