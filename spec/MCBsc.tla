------------------------------- MODULE MCBsc -------------------------------
(* Constant definitions for the Bsc configurations (cfg files cannot hold sets of sets). *)
EXTENDS BscMC

U6  == 0..5
U7  == 0..6            \* 7 and 23 are prime: RandSet's progressions have distinct members
U9  == 0..8
U23 == 0..22
\* exhaustive: creation sets of every size 1..5, announced sets that keep, shrink, grow and replace
InitSetsSmall == { {2}, {0, 3}, {1, 2, 4}, {0, 1, 3, 5}, {0, 1, 2, 3, 4} }
AnnSetsSmall  == { {2}, {1, 2, 4}, {0, 1, 2, 3, 4}, {1, 2, 3, 4, 5} }
InitSetsQuick == { {2}, {1, 2, 4}, {0, 1, 2, 3, 4} }
AnnSetsQuick  == { {2}, {1, 2, 4}, {1, 2, 3, 4, 5} }
\* growth from 3 to 8 validators (limit 2 -> 5): the store keeps fewer entries than the new window looks back
InitSetsGrow == { {0, 1, 2} }
AnnSetsGrow  == { {0, 1, 2}, {0, 1, 2, 3, 4, 5, 6, 7} }
\* Tier (a cfg constant the driver overrides) selects the size of the exhaustive design check
CONSTANT Tier
InitSetsSel == IF Tier = 1 THEN InitSetsQuick ELSE InitSetsSmall
AnnSetsSel  == IF Tier = 1 THEN AnnSetsQuick ELSE AnnSetsSmall
=============================================================================
