------------------------------- MODULE Registry -------------------------------
(***************************************************************************)
(* Privileged operations of tibc-go (property C15): who may create or       *)
(* upgrade a light client, register relayers, change the routing rules, and *)
(* who may update a client (modules/tibc/core/keeper/msg_server.go,          *)
(* 02-client/keeper/{client,relayer}.go).                                    *)
(*                                                                          *)
(* State (JSON-shaped, exactly what harness/registry.go projects):          *)
(*   clients   {<<name, type, latest>>}   at most one entry per chain name   *)
(*   relayers  {<<name, account>>}        accounts registered for a chain    *)
(*   rules     <<rule, ...>>              routing rules (opaque strings;     *)
(*                                        their syntax is Routing.tla's job) *)
(* Events (records):                                                        *)
(*   CreateClient / UpgradeClient  signer, as, name, ctype, payload          *)
(*   RegisterRelayer               signer, as, name, relayers (set)          *)
(*   SetRoutingRules               signer, as, rules (tuple), rvalid         *)
(*   UpdateClient                  signer, name, header                      *)
(* signer  "gov" = the governance authority (the only account for which     *)
(*         Authorised holds), anything else an ordinary account              *)
(* as      whose address the message names as its authority: "self" (the    *)
(*         signer's own) or "gov" (the authority's, signed by somebody else *)
(*         - a forgery the transaction layer must refuse)                   *)
(* payload "valid" | anything else = not decodable as a client state of     *)
(*         type ctype;  header "valid" | anything else = not acceptable      *)
(* h       the height the payload / header carries (concrete input; the     *)
(*         model checker draws it from 1..MaxH)                              *)
(* The step operator StepRes is the statement of C15 made total: it says    *)
(* for every event in every state whether it takes effect and what the      *)
(* state is afterwards.                                                      *)
(***************************************************************************)
EXTENDS Naturals, FiniteSets, Sequences

Gov == "gov"
Governed == {"CreateClient", "UpgradeClient", "RegisterRelayer", "SetRoutingRules"}

EmptyReg == [clients |-> {}, relayers |-> {}, rules |-> <<>>]

HasClient(st, n)  == \E x \in st.clients : x[1] = n
ClientOf(st, n)   == CHOOSE x \in st.clients : x[1] = n
TypeOf(st, n)     == IF HasClient(st, n) THEN ClientOf(st, n)[2] ELSE ""
LatestOf(st, n)   == IF HasClient(st, n) THEN ClientOf(st, n)[3] ELSE 0
RelayersOf(st, n) == {x[2] : x \in {y \in st.relayers : y[1] = n}}
SetClient(st, n, ty, h) == [st EXCEPT !.clients = {x \in @ : x[1] # n} \cup {<<n, ty, h>>}]

\* only the governance authority is authorised for the governed operations
Authorised(e) == e.signer = Gov

\* classes the statement quantifies over (used for coverage and for fingerprints, never to decide)
SignerClass(st, e) ==
  IF e.signer = Gov THEN "authority"
  ELSE IF e.act # "SetRoutingRules" /\ <<e.name, e.signer>> \in st.relayers THEN "relayerOfThisChain"
  ELSE IF \E x \in st.relayers : x[2] = e.signer THEN "relayerOfOtherChain"
  ELSE "plainAccount"
\* "mixedcons": a decodable client state of type e.ctype accompanied by a consensus state of the type the stored client
\* has (the message does not relate the two); decided exactly like "valid"
Decodable(e) == e.payload \in {"valid", "mixedcons"}
PayloadClass(st, e) ==
  IF ~Decodable(e) THEN "undecodable"
  ELSE IF ~HasClient(st, e.name) THEN "valid_no_client"
  ELSE IF TypeOf(st, e.name) = e.ctype THEN "valid_same_type" ELSE "valid_other_type"

Refuse(st, why) == [ok |-> FALSE, st |-> st, why |-> why]
Accept(st2)     == [ok |-> TRUE,  st |-> st2, why |-> ""]

CreateRes(st, e, h) ==
  IF ~Authorised(e) THEN Refuse(st, "unauthorised")
  ELSE IF ~Decodable(e) THEN Refuse(st, "undecodable")
  ELSE IF HasClient(st, e.name) THEN Refuse(st, "client_exists")
  ELSE Accept(SetClient(st, e.name, e.ctype, h))

UpgradeRes(st, e, h) ==
  IF ~Authorised(e) THEN Refuse(st, "unauthorised")
  ELSE IF ~Decodable(e) THEN Refuse(st, "undecodable")
  ELSE IF ~HasClient(st, e.name) THEN Refuse(st, "no_client")
  ELSE IF TypeOf(st, e.name) # e.ctype THEN Refuse(st, "type_mismatch")
  ELSE Accept(SetClient(st, e.name, e.ctype, h))

\* registering replaces the relayer set of that chain; an empty set is not a request
RegisterRes(st, e) ==
  IF ~Authorised(e) THEN Refuse(st, "unauthorised")
  ELSE IF e.relayers = {} THEN Refuse(st, "no_relayers")
  ELSE Accept([st EXCEPT !.relayers = {x \in @ : x[1] # e.name} \cup {<<e.name, a>> : a \in e.relayers}])

SetRulesRes(st, e) ==
  IF ~Authorised(e) THEN Refuse(st, "unauthorised")
  ELSE IF ~e.rvalid THEN Refuse(st, "invalid_rules")
  ELSE Accept([st EXCEPT !.rules = e.rules])

\* header updates: only by a relayer registered for that chain
UpdateRes(st, e, h) ==
  IF e.signer \notin RelayersOf(st, e.name) THEN Refuse(st, "not_a_relayer_of_this_chain")
  ELSE IF ~HasClient(st, e.name) THEN Refuse(st, "no_client")
  ELSE IF e.header # "valid" \/ TypeOf(st, e.name) # e.htype THEN Refuse(st, "bad_header")
  ELSE IF h <= LatestOf(st, e.name) THEN Refuse(st, "old_header")
  ELSE Accept(SetClient(st, e.name, TypeOf(st, e.name), h))

StepRes(st, e, h) ==
  CASE e.act = "CreateClient"    -> CreateRes(st, e, h)
    [] e.act = "UpgradeClient"   -> UpgradeRes(st, e, h)
    [] e.act = "RegisterRelayer" -> RegisterRes(st, e)
    [] e.act = "SetRoutingRules" -> SetRulesRes(st, e)
    [] e.act = "UpdateClient"    -> UpdateRes(st, e, h)
=============================================================================
