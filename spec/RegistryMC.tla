------------------------------ MODULE RegistryMC ------------------------------
(***************************************************************************)
(* Closed system for Registry: every message type of C15, sent by every     *)
(* kind of signer with every kind of payload, in every state of the         *)
(* registry.  Next = exhaustive (design check of the step operator against  *)
(* the sentences of C15, stated as action properties); NextSim = behaviour  *)
(* generation (one RandomElement-chosen event per step).                    *)
(***************************************************************************)
EXTENDS Registry, Json, TLC

CONSTANTS Names,        \* chain names a message may mention
          Accts,        \* ordinary accounts (possible relayers)
          Types,        \* client types
          Payloads,     \* "valid" and the undecodable kinds
          Headers,      \* "valid" and the unacceptable kinds
          RuleLists,    \* tuple of [rules |-> <<...>>, rvalid |-> BOOLEAN]
          MaxH,         \* heights are 1..MaxH in the exhaustive check
          LOG, SimDepth

VARIABLES st, evlog
vars == <<st, evlog>>

\* (signer, named authority): the authority itself, an account naming itself, an account naming the authority
Senders == {<<Gov, "gov">>} \cup {<<a, "self">> : a \in Accts} \cup {<<a, "gov">> : a \in Accts}

ClientEvents(act) ==
  {[act |-> act, signer |-> s[1], as |-> s[2], name |-> n, ctype |-> ty, payload |-> p] :
     s \in Senders, n \in Names, ty \in Types, p \in Payloads}
RegisterEvents ==
  {[act |-> "RegisterRelayer", signer |-> s[1], as |-> s[2], name |-> n, relayers |-> rs] :
     s \in Senders, n \in Names, rs \in SUBSET Accts}
RulesEvents ==
  {[act |-> "SetRoutingRules", signer |-> s[1], as |-> s[2], rules |-> RuleLists[k].rules, rvalid |-> RuleLists[k].rvalid] :
     s \in Senders, k \in DOMAIN RuleLists}
UpdateEvents ==
  {[act |-> "UpdateClient", signer |-> a, name |-> n, header |-> hd, htype |-> "tm"] : a \in Accts, n \in Names, hd \in Headers}

Events == ClientEvents("CreateClient") \cup ClientEvents("UpgradeClient") \cup RegisterEvents \cup RulesEvents \cup UpdateEvents

Init == st = EmptyReg /\ evlog = <<>>

Do(e, h) == st' = StepRes(st, e, h).st
Log(e)   == evlog' = IF LOG THEN Append(evlog, e) ELSE evlog

Next == \E e \in Events, h \in 1..MaxH : Do(e, h) /\ Log(e)
Spec == Init /\ [][Next]_vars

-------------------------------------------------------------------------------
(* The sentences of C15 as theorems about the step operator.  Each is an invariant that quantifies, in   *)
(* every reachable state of the registry, over EVERY event and height: TLC therefore checks every        *)
(* transition of the model, including the refused ones, without a history variable.                      *)
Inv_OneClientPerName == \A x, y \in st.clients : x[1] = y[1] => x = y

AllSteps(P(_, _, _)) == \A e \in Events, h \in 1..MaxH : P(e, h, StepRes(st, e, h))

\* a refused request changes nothing
P_RefusedUnchanged(e, h, r) == ~r.ok => r.st = st
\* creating / upgrading a client, registering relayers and changing the rules take effect only for the authority
P_OnlyAuthority(e, h, r) == (e.act \in Governed /\ (r.ok \/ r.st # st)) => e.signer = Gov
\* header updates only by a relayer registered for that chain
P_UpdateOnlyRelayer(e, h, r) == (e.act = "UpdateClient" /\ (r.ok \/ r.st # st)) => e.signer \in RelayersOf(st, e.name)
\* creating a client never overwrites an existing one
P_CreateNoOverwrite(e, h, r) == (e.act = "CreateClient" /\ HasClient(st, e.name)) =>
                                  (HasClient(r.st, e.name) /\ ClientOf(r.st, e.name) = ClientOf(st, e.name))
\* a client's type never changes (and clients do not disappear)
P_TypeStable(e, h, r) == \A n \in Names : HasClient(st, n) => TypeOf(r.st, n) = TypeOf(st, n)
\* every operation touches only what it names
P_Scope(e, h, r) ==
  /\ e.act \in {"CreateClient", "UpgradeClient", "UpdateClient"} =>
       (r.st.relayers = st.relayers /\ r.st.rules = st.rules /\ \A x \in st.clients : x[1] # e.name => x \in r.st.clients)
  /\ e.act = "RegisterRelayer" =>
       (r.st.clients = st.clients /\ r.st.rules = st.rules /\ \A x \in st.relayers : x[1] # e.name => x \in r.st.relayers)
  /\ e.act = "SetRoutingRules" => (r.st.clients = st.clients /\ r.st.relayers = st.relayers)
\* the authority is not locked out: a well-formed request of the authority that the state permits takes effect
P_AuthorityServed(e, h, r) ==
  /\ (e.act = "CreateClient" /\ e.signer = Gov /\ e.payload = "valid" /\ ~HasClient(st, e.name)) =>
       (r.ok /\ ClientOf(r.st, e.name) = <<e.name, e.ctype, h>>)
  /\ (e.act = "UpgradeClient" /\ e.signer = Gov /\ e.payload = "valid" /\ TypeOf(st, e.name) = e.ctype) =>
       (r.ok /\ ClientOf(r.st, e.name) = <<e.name, e.ctype, h>>)
  /\ (e.act = "RegisterRelayer" /\ e.signer = Gov /\ e.relayers # {}) => (r.ok /\ RelayersOf(r.st, e.name) = e.relayers)
  /\ (e.act = "SetRoutingRules" /\ e.signer = Gov /\ e.rvalid) => (r.ok /\ r.st.rules = e.rules)
  /\ (e.act = "UpdateClient" /\ e.signer \in RelayersOf(st, e.name) /\ TypeOf(st, e.name) = e.htype /\ e.header = "valid"
        /\ h > LatestOf(st, e.name)) => (r.ok /\ LatestOf(r.st, e.name) = h)

Inv_RefusedUnchanged  == AllSteps(P_RefusedUnchanged)
Inv_OnlyAuthority     == AllSteps(P_OnlyAuthority)
Inv_UpdateOnlyRelayer == AllSteps(P_UpdateOnlyRelayer)
Inv_CreateNoOverwrite == AllSteps(P_CreateNoOverwrite)
Inv_TypeStable        == AllSteps(P_TypeStable)
Inv_Scope             == AllSteps(P_Scope)
Inv_AuthorityServed   == AllSteps(P_AuthorityServed)
\* all of them in one pass over the steps (quick tier: one evaluation of StepRes per step instead of seven)
Inv_C15All == AllSteps(LAMBDA e, h, r : /\ P_RefusedUnchanged(e, h, r) /\ P_OnlyAuthority(e, h, r) /\ P_UpdateOnlyRelayer(e, h, r)
                                         /\ P_CreateNoOverwrite(e, h, r) /\ P_TypeStable(e, h, r) /\ P_Scope(e, h, r)
                                         /\ P_AuthorityServed(e, h, r))

-------------------------------------------------------------------------------
(* Generation *)
\* (drawing depends on a variable so that TLC cannot treat a draw as a constant and evaluate it only once)
Pick(S)        == RandomElement(IF Len(evlog) >= 0 THEN S ELSE {})
PickOr(S, alt) == IF S = {} THEN alt ELSE Pick(S)
NextH(n)       == LatestOf(st, n) + 1
HOf(e)         == IF e.act \in {"CreateClient", "UpgradeClient", "UpdateClient"} THEN NextH(e.name) ELSE 0
Useful(S)      == {e \in S : StepRes(st, e, HOf(e)).ok}
ByGov(S)       == {e \in S : e.signer = Gov}

\* (the dummy parameter keeps TLC from evaluating the constant-level LET definitions only once)
SimEvent(z) ==
  LET roll == Pick(1..24)
      any  == Pick(Events)
  IN  IF roll <= 3 THEN PickOr(Useful(ByGov(ClientEvents("CreateClient"))), any)
      ELSE IF roll <= 5 THEN PickOr({e \in ByGov(RegisterEvents) : e.relayers # {}}, any)
      ELSE IF roll <= 6 THEN PickOr(ByGov(RulesEvents), any)
      ELSE IF roll <= 8 THEN PickOr(Useful(ByGov(ClientEvents("UpgradeClient"))), any)
      ELSE IF roll <= 9 THEN PickOr({e \in ByGov(ClientEvents("UpgradeClient")) : e.payload = "valid"}, any)
      ELSE IF roll <= 10 THEN PickOr({e \in ByGov(ClientEvents("CreateClient")) : e.payload = "valid"}, any)
      ELSE IF roll <= 13 THEN PickOr(Useful(UpdateEvents), Pick(UpdateEvents))
      ELSE IF roll <= 15 THEN Pick(UpdateEvents)
      ELSE IF roll <= 17 THEN Pick({e \in UpdateEvents : e.header = "valid"})
      ELSE IF roll <= 19 THEN Pick({e \in ClientEvents("CreateClient") \cup ClientEvents("UpgradeClient") : e.payload = "valid" /\ e.signer # Gov})
      ELSE any

NextSim == \E e \in {SimEvent(0)} : Do(e, HOf(e)) /\ Log(e)

PrintBehaviour == (Len(evlog) = SimDepth) => PrintT(<<"BEH", ToJson(evlog)>>)
=============================================================================
