\* behaviour generation for the application family (as-coded model, simulation mode)
CONSTANTS
  Chains = {"A","B","C"}
  Names = {"A","B","C","Z"}
  Ports = {"mock","ghost"}
  BoundPorts = {"mock","nft","mt"}
  Data = {}
  DecodableData = {}
  EmptyData <- NoDataRec
  AckTags = {"unauth","errX","ok","err"}
  MaxSeq = 4
  F_BIND = FALSE
  F_ACKCB_SRC_ONLY = TRUE
  F_STATUS = TRUE
  F_RELAY_DST_ERRACK = TRUE
  Links <- Links3
  RuleSets <- RuleSetsApps
  Senders = {"A","B","C"}
  Dests = {"A","B","C"}
  UserRelays = {"","A","B","C"}
  UserPorts = {"nft"}
  UserData = {}
  RuleChains = {"A","B","C"}
  AdvOn = TRUE
  ExpirePairs <- NoPairs
  ExportOn = FALSE
  LOG = TRUE
  SimDepth = 40
  SimMode = "mixed"
  Users = {"u1","u2"}
  NftStarts = {"nft","nftkit"}
  MtStarts = {"mt"}
  MaxUnits = 15
  NftNatives <- NftNativesPlain
  NftIds = {"tom","jerry"}
  MtNatives <- MtNativesGen
  MtIds = {"t1"}
  Amounts = {1,2,7,14,15}
  AppSenders = {"A","B","C"}
  Receivers = {"u1","u2","bad"}
  MaxPkts = 100
INIT AInit
NEXT ANextSim
INVARIANT PrintBehaviour
CHECK_DEADLOCK FALSE
