\* design check of the Routing definitions: sanity theorems, exhaustively over the universes DesignUniverses
\* (MCRouting.tla: 2 = bracket characters, one rule; 3 = lists of two rules; 1 = identifiers over {a,+} of length <= 2)
CONSTANTS
  MaxLen = 5
  DesignUniverses = {2, 3}
  UFields <- FieldsOf
  UAsk <- AskOf
  UBadRules <- BadRulesOf
  UMaxRules <- MaxRulesOf
  GenUniverses <- GenNone
  SimChars <- SimCharsStd
  LongChars <- SimCharsLong
  SimMaxLen = 5
  BadFields <- BadFieldsStd
  Batch = 1
  LOG = FALSE
  SimDepth = 0
INIT Init
NEXT Next
INVARIANTS Inv_StoredValid Inv_EmptyNone Inv_StarAll Inv_Exact Inv_Monotone
PROPERTIES Prop_Steps
CHECK_DEADLOCK FALSE
