\* behaviour generation, validator sets of up to 21 members (simulation only)
CONSTANTS
  MaxV = 21
  F_NOWRAP = TRUE
  F_PRUNE_OLD = FALSE
  F_LENGTHS = TRUE
  F_FULLWINDOW = FALSE
  U <- U23
  Epochs = {11, 12, 13}
  StartMults = {0, 1, 3}
  InitSets <- InitSetsSel
  AnnSets <- AnnSetsSel
  Tier = 1
  Gls = {"norm"}
  MaxLen = 0
  MaxOddTimes = 999
  ValidPct = 75
  LOG = TRUE
  SimDepth = 40
INIT Init
NEXT NextSim
INVARIANT PrintBehaviour
CHECK_DEADLOCK FALSE
