package harness

import (
	"fmt"
	"testing"
	"time"

	"cosmossdk.io/math"
	cmtproto "github.com/cometbft/cometbft/proto/tendermint/types"
	cmttypes "github.com/cometbft/cometbft/types"
	"github.com/cosmos/cosmos-sdk/crypto/keys/ed25519"
	"github.com/cosmos/cosmos-sdk/crypto/keys/secp256k1"
	sdk "github.com/cosmos/cosmos-sdk/types"
	authtypes "github.com/cosmos/cosmos-sdk/x/auth/types"
	banktypes "github.com/cosmos/cosmos-sdk/x/bank/types"

	tibctesting "github.com/bianjieai/tibc-go/modules/tibc/testing"
	"github.com/bianjieai/tibc-go/modules/tibc/testing/mock"
)

var detStartTime = time.Date(2020, 1, 2, 0, 0, 0, 0, time.UTC)

// NewDetCoordinator is tibctesting.NewCoordinator with keys derived from fixed secrets instead of crypto/rand, so
// that two executions of one behaviour - in any process - start from the same genesis and produce the same
// transactions byte for byte (needed for replays and for the determinism property C20).
func NewDetCoordinator(t *testing.T, n int) *tibctesting.Coordinator {
	coord := &tibctesting.Coordinator{T: t, CurrentTime: detStartTime, Chains: map[string]*tibctesting.TestChain{}}
	for i := 0; i < n; i++ {
		id := tibctesting.GetChainID(i)
		coord.Chains[id] = newDetChain(t, coord, id)
	}
	return coord
}

func newDetChain(t *testing.T, coord *tibctesting.Coordinator, chainID string) *tibctesting.TestChain {
	validators := []*cmttypes.Validator{}
	signers := map[string]cmttypes.PrivValidator{}
	for i := 0; i < 4; i++ {
		pv := mock.PV{PrivKey: ed25519.GenPrivKeyFromSecret([]byte(fmt.Sprintf("verif/%s/val/%d", chainID, i)))}
		pk, err := pv.GetPubKey()
		if err != nil {
			t.Fatal(err)
		}
		validators = append(validators, cmttypes.NewValidator(pk, 1))
		signers[pk.Address().String()] = pv
	}
	valSet := cmttypes.NewValidatorSet(validators)

	genAccs := []authtypes.GenesisAccount{}
	genBals := []banktypes.Balance{}
	senders := []tibctesting.SenderAccount{}
	for i := 0; i < tibctesting.MaxAccounts; i++ {
		priv := secp256k1.GenPrivKeyFromSecret([]byte(fmt.Sprintf("verif/%s/acct/%d", chainID, i)))
		acc := authtypes.NewBaseAccount(priv.PubKey().Address().Bytes(), priv.PubKey(), uint64(i), 0)
		amount, _ := math.NewIntFromString("10000000000000000000")
		genAccs = append(genAccs, acc)
		genBals = append(genBals, banktypes.Balance{Address: acc.GetAddress().String(), Coins: sdk.NewCoins(sdk.NewCoin(sdk.DefaultBondDenom, amount))})
		senders = append(senders, tibctesting.SenderAccount{SenderAccount: acc, SenderPrivKey: priv})
	}
	app := tibctesting.SetupWithGenesisValSet(t, valSet, genAccs, chainID, sdk.DefaultPowerReduction, genBals...)
	chain := &tibctesting.TestChain{
		T:              t,
		Coordinator:    coord,
		ChainID:        chainID,
		ChainName:      chainID,
		App:            app,
		ProposedHeader: cmtproto.Header{ChainID: chainID, Height: 1, Time: coord.CurrentTime.UTC()},
		QueryServer:    app.TIBCKeeper,
		TxConfig:       app.GetTxConfig(),
		Codec:          app.AppCodec(),
		Vals:           valSet,
		NextVals:       valSet,
		Signers:        signers,
		SenderPrivKey:  senders[0].SenderPrivKey,
		SenderAccount:  senders[0].SenderAccount,
		SenderAccounts: senders,
	}
	chain.NextBlock()
	return chain
}
