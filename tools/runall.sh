#!/bin/bash
# runs the quick tier of every registered check sequentially and prints exit codes
cd /verif
for p in "$@"; do
  s=$(date +%s)
  ./check $p --tier ${TIER:-quick} --seed ${SEED:-1} > /tmp/run-$p.log 2>&1
  echo "$p exit=$? $(( $(date +%s) - s ))s  $(grep -c VIOLATION /tmp/run-$p.log) violations, $(grep -c DIVERGENCE /tmp/run-$p.log) divergences, $(grep -c KNOWN-FINDING /tmp/run-$p.log) known"
done
