------------------------------- MODULE TraceTm -------------------------------
(***************************************************************************)
(* Trace specification for C07.  trace.ndjson holds one record per step     *)
(* executed on the REAL code by harness/tm.go: the abstract event, the       *)
(* transaction's result code, and the projection of the real 07-tendermint  *)
(* client store (consensus states by height, latest height, parameters,     *)
(* block time) after the step.  The pre-state of a step is the previous      *)
(* line.                                                                    *)
(*                                                                          *)
(* bad: a formula of C07 is false on a real step.  For this property the    *)
(*      decision itself is the property, so a recorded outcome that differs *)
(*      from TmClient!Check is a violation, in both directions.              *)
(* div: the real step differs from the specification where C07 says nothing *)
(*      (pruning, status, iteration keys, creation, clock).                 *)
(* Neither stops the run.                                                   *)
(***************************************************************************)
EXTENDS TmClient, Json

TraceLog == ndJsonDeserialize("trace.ndjson")

VARIABLES l, bad, div, nsteps, aux
tvars == <<vars, l, bad, div, nsteps, aux>>

SetOf(t) == {t[i] : i \in DOMAIN t}
ConvState(j) == [par |-> [num |-> j.par.num, den |-> j.par.den, period |-> j.par.period, drift |-> j.par.drift, rev |-> j.par.rev],
                 cons |-> SetOf(j.cons), latest |-> j.latest, now |-> j.now]
ConvHdr(h) == [height |-> h.height, rev |-> h.rev, time |-> h.time, root |-> h.root, vals |-> h.vals, nextVals |-> h.nextVals,
               signers |-> SetOf(h.signers), trev |-> h.trev, trusted |-> h.trusted, trustedVals |-> h.trustedVals]
ConvPar(p) == [num |-> p.num, den |-> p.den, period |-> p.period, drift |-> p.drift, rev |-> p.rev]
AuxOf(rec) == [cdig |-> rec.cdig, pdig |-> rec.pdig]

TraceInit ==
  /\ l = 1 /\ bad = {} /\ div = {} /\ nsteps = 0
  /\ st = ConvState(TraceLog[1].st)
  /\ aux = AuxOf(TraceLog[1])
  /\ evlog = <<>>

Lbl(f, detail) == [p |-> "C07", f |-> f, d |-> detail]
DLbl(f, detail) == [f |-> f, d |-> detail]
If(cond, lbl) == IF cond THEN {lbl} ELSE {}

Part(s, s2) == IF s2.cons # s.cons THEN "consensus_states" ELSE IF s2.latest # s.latest THEN "latest_height"
               ELSE IF s2.par # s.par THEN "parameters" ELSE "clock"
StoredDiff(s2, h) ==
  LET X == At(s2, <<h.rev, h.height>>) IN
  IF X = {} THEN "missing"
  ELSE LET c == CHOOSE c \in X : TRUE IN
       IF c[3] # h.time THEN "time" ELSE IF c[4] # h.root THEN "app_hash" ELSE IF c[5] # h.nextVals THEN "next_validators" ELSE "duplicate"

-------------------------------------------------------------------------------
(* C07 on one recorded MsgUpdateClient: s = real state before, s2 = real state after, okR = accepted *)
V_Update(h, okR, s, s2, rec) ==
  LET why == Check(s, h)
      hh  == <<h.rev, h.height>>
      mx  == IF GT(hh, s.latest) THEN hh ELSE s.latest
  IN \* sound: accepted only if the rule holds (d = the first test of the rule that fails)
     If(okR /\ why # "", Lbl("accepted_but_rule_rejects", why))
     \* complete: rejected only if the rule fails (d = the error the code gave)
\cup If(~okR /\ why = "", Lbl("rule_accepts_but_rejected", rec.cs))
     \* on rejection nothing changes (projection, and the bytes of the whole client sub-store / tibc store)
\cup If(~okR /\ s2 # s, Lbl("rejected_but_changed", Part(s, s2)))
\cup If(~okR /\ s2 = s /\ rec.cdig # aux.cdig, Lbl("rejected_but_changed", "client_store_bytes"))
\cup If(~okR /\ rec.pdig # aux.pdig, Lbl("rejected_but_changed", "tibc_store_bytes"))
     \* on acceptance the state stored for the height is the header's time, app hash and next-validators hash
\cup If(okR /\ At(s2, hh) # {ConsOf(h)}, Lbl("stored_state_differs_from_header", StoredDiff(s2, h)))
     \* the latest height never decreases, and is the maximum of the old one and the header's
\cup If(GT(s.latest, s2.latest), Lbl("latest_height_decreased", "Update"))
\cup If(okR /\ ~GT(s.latest, s2.latest) /\ s2.latest # mx, Lbl("latest_height_not_maximum", IF GT(s2.latest, mx) THEN "above" ELSE "below"))
     \* every stored state comes from the creation or an accepted header: nothing else is written
\cup If(okR /\ ~({c \in s2.cons : HeightOf(c) # hh} \subseteq s.cons), Lbl("stored_state_without_accepted_header", ""))

D_Update(h, okR, s, s2, rec, V) ==
  LET pred == UpdateRes(s, h) IN
     If(V = {} /\ pred.ok = okR /\ s2 # pred.st, DLbl("post_state", IF s2.cons # pred.st.cons THEN "pruning" ELSE Part(pred.st, s2)))
\cup If(okR /\ rec.pdig # aux.pdig, DLbl("other_tibc_state_changed", "Update"))

D_Common(s2, rec) ==
     If(rec.status # Status(s2), DLbl("status", rec.status))
\cup If(SetOf(rec.iter) # {HeightOf(c) : c \in s2.cons}, DLbl("iteration_keys", rec.ev.act))

TraceStep ==
  /\ l < Len(TraceLog)
  /\ l' = l + 1
  /\ evlog' = evlog
  /\ LET rec == TraceLog[l + 1]
         s2  == ConvState(rec.st)
         okR == rec.code = 0
         id(V) == {[tr |-> rec.tr, i |-> rec.i, v |-> v] : v \in V}
     IN /\ st' = s2
        /\ aux' = AuxOf(rec)
        /\ CASE rec.ev.act = "Reset" ->
                  /\ UNCHANGED <<bad, nsteps>>
                  /\ div' = div \cup id(If(s2 # NoClient, DLbl("reset", "client exists")))
             [] rec.ev.act = "Create" ->
                  LET e == [rec.ev EXCEPT !.par = ConvPar(@)] IN
                  /\ nsteps' = nsteps + 1
                  /\ bad' = bad
                  /\ div' = div \cup id(If(~okR \/ s2 # CreateRes(st, e).st, DLbl("create", IF okR THEN Part(CreateRes(st, e).st, s2) ELSE "failed"))
                                        \cup D_Common(s2, rec))
             [] rec.ev.act = "Tick" ->
                  /\ nsteps' = nsteps + 1
                  /\ bad' = bad \cup id(If(GT(st.latest, s2.latest), Lbl("latest_height_decreased", "Tick")))
                  /\ div' = div \cup id(If(s2 # TickRes(st, rec.ev).st, DLbl("tick", Part(TickRes(st, rec.ev).st, s2)))
                                        \cup If(rec.cdig # aux.cdig \/ rec.pdig # aux.pdig, DLbl("tick", "store_bytes"))
                                        \cup D_Common(s2, rec))
             [] rec.ev.act = "Update" ->
                  LET h == ConvHdr(rec.ev.hdr)
                      V == V_Update(h, okR, st, s2, rec) IN
                  /\ nsteps' = nsteps + 1
                  /\ bad' = bad \cup id(V)
                  /\ div' = div \cup id(D_Update(h, okR, st, s2, rec, V) \cup D_Common(s2, rec))

TraceNext == TraceStep
TraceSpec == TraceInit /\ [][TraceNext]_tvars

\* written when the whole trace has been consumed; the driver requires n = number of lines
Done == (l = Len(TraceLog)) => JsonSerialize("result.json", [n |-> l, steps |-> nsteps, bad |-> bad, div |-> div])
=============================================================================
