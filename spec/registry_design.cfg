\* design check of Registry!StepRes against the sentences of C15 (exhaustive)
CONSTANTS
  Names = {"B","Z"}
  Accts = {"a1","a2"}
  Types = {"tm","bsc"}
  Payloads = {"valid","garbage"}
  Headers = {"valid","badsig"}
  RuleLists <- RuleListsSmall
  MaxH = 2
  LOG = FALSE
  SimDepth = 0
INIT Init
NEXT Next
INVARIANTS Inv_OneClientPerName Inv_RefusedUnchanged Inv_OnlyAuthority Inv_UpdateOnlyRelayer Inv_CreateNoOverwrite Inv_TypeStable Inv_Scope Inv_AuthorityServed
CHECK_DEADLOCK FALSE
