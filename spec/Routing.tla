------------------------------- MODULE Routing -------------------------------
(***************************************************************************)
(* Routing whitelist of tibc-go (modules/tibc/core/26-routing): which rule  *)
(* sets are accepted (MsgSetRoutingRules -> keeper SetRoutingRules, pattern *)
(* types.RulePattern / host.IsValidRule) and which (source, destination,    *)
(* port) triples a stored rule set authorises (keeper Authenticate).        *)
(*                                                                          *)
(* Strings are SEQUENCES OF CHARACTERS: a TLA+ tuple of one-character       *)
(* strings, <<"a","+","b">> is the string a+b.  A rule is one such sequence *)
(* (commas included), a rule set is a sequence of rules, a triple is a      *)
(* 3-tuple of character sequences.  This is what the statement of C12 needs:*)
(* "three comma-separated fields, each a valid identifier or a single '*'", *)
(* and "matches field by field, '*' matches any value and any other field   *)
(* matches only the identical string".                                      *)
(*                                                                          *)
(* Alphabet and length bound are those of the CODE's pattern                *)
(*   ^(([a-zA-Z0-9\.\_\+\-\#\[\]\<\>]{1,64}|[*]),){2}([...]{1,64}|[*])$     *)
(* i.e. letters of both cases, digits and . _ + - # [ ] < >, 1..64          *)
(* characters per field.  Difference from the statement noted here: the     *)
(* statement says "valid identifier"; the host validators for chain names   *)
(* additionally demand a minimum length (client name 9, destination 8,      *)
(* source 2 characters) which the rule pattern does not (1 suffices), so a  *)
(* rule may name a chain that can never exist.  The rule pattern is what    *)
(* this module states; MaxLen is 64 in every configuration that talks to    *)
(* the real code and smaller only in the exhaustive design check.           *)
(***************************************************************************)
EXTENDS Naturals, Sequences, FiniteSets

CONSTANT MaxLen          \* longest identifier (64 in the code)

Lower   == {"a","b","c","d","e","f","g","h","i","j","k","l","m","n","o","p","q","r","s","t","u","v","w","x","y","z"}
Upper   == {"A","B","C","D","E","F","G","H","I","J","K","L","M","N","O","P","Q","R","S","T","U","V","W","X","Y","Z"}
Digit   == {"0","1","2","3","4","5","6","7","8","9"}
Special == {".", "_", "+", "-", "#", "[", "]", "<", ">"}
IdChars == Lower \cup Upper \cup Digit \cup Special

Star == <<"*">>

-------------------------------------------------------------------------------
(* Syntax *)
IsIdent(f)    == Len(f) >= 1 /\ Len(f) <= MaxLen /\ \A i \in 1..Len(f) : f[i] \in IdChars
ValidField(f) == f = Star \/ IsIdent(f)

\* splitting a character sequence at its commas: Fields(<<"a",",",",","b">>) = << <<"a">>, <<>>, <<"b">> >>
\* (recursion on the number of fields, not on the number of characters)
CommaPos(r)   == {i \in 1..Len(r) : r[i] = ","}
FirstComma(r) == CHOOSE i \in CommaPos(r) : \A k \in CommaPos(r) : i <= k
RECURSIVE Fields(_)
Fields(r)   == IF CommaPos(r) = {} THEN <<r>>
               ELSE LET c == FirstComma(r) IN <<SubSeq(r, 1, c - 1)>> \o Fields(SubSeq(r, c + 1, Len(r)))
NFields(r)  == Cardinality(CommaPos(r)) + 1
Field(r, j) == Fields(r)[j]

ValidRule(r)     == LET F == Fields(r) IN Len(F) = 3 /\ \A j \in 1..3 : ValidField(F[j])
ValidRuleSet(rs) == \A i \in DOMAIN rs : ValidRule(rs[i])

\* joining fields with commas (used by the generators)
Join3(a, b, c) == a \o <<",">> \o b \o <<",">> \o c

-------------------------------------------------------------------------------
(* Matching *)
MatchField(f, x)  == f = Star \/ f = x
FieldsMatch(F, t) == Len(F) = 3 /\ \A j \in 1..3 : MatchField(F[j], t[j])
RuleMatches(r, t) == FieldsMatch(Fields(r), t)
Authorised(rs, t) == \E i \in DOMAIN rs : RuleMatches(rs[i], t)
\* the same with the rules split beforehand (SplitAll(rs) is evaluated once for a batch of queries)
SplitAll(rs)        == [i \in DOMAIN rs |-> Fields(rs[i])]
AuthorisedBy(FS, t) == \E i \in DOMAIN FS : FieldsMatch(FS[i], t)

-------------------------------------------------------------------------------
(* Functional step operators.  The state is the stored rule set (a sequence of rules, <<>> at start). *)
SetRulesRes(st, rs) == IF ValidRuleSet(rs) THEN [ok |-> TRUE, st |-> rs] ELSE [ok |-> FALSE, st |-> st]
AuthRes(st, t)      == Authorised(st, t)

-------------------------------------------------------------------------------
(* Classification of inputs, used only to give findings stable fingerprints (never to decide). *)
CharsOf(r)      == {r[i] : i \in 1..Len(r)}
CharsOfSet(rs)  == UNION {CharsOf(rs[i]) : i \in DOMAIN rs}
\* characters of the identifier alphabet that are operators of a regular-expression language
RegexMeta == {"+", "[", "]"}
Tag(S) == (IF "." \in S THEN "." ELSE "") \o (IF "_" \in S THEN "_" ELSE "") \o (IF "+" \in S THEN "+" ELSE "") \o
          (IF "-" \in S THEN "-" ELSE "") \o (IF "#" \in S THEN "#" ELSE "") \o (IF "[" \in S THEN "[" ELSE "") \o
          (IF "]" \in S THEN "]" ELSE "") \o (IF "<" \in S THEN "<" ELSE "") \o (IF ">" \in S THEN ">" ELSE "")

\* why a field is not a valid field
FieldDefect(f) ==
  IF f = <<>> THEN "empty_field"
  ELSE IF "*" \in CharsOf(f) THEN (IF CharsOf(f) = {"*"} THEN "multi_star"
                                   ELSE IF f[1] = "*" THEN "suffix_wildcard"
                                   ELSE IF f[Len(f)] = "*" THEN "prefix_wildcard" ELSE "infix_wildcard")
  ELSE IF \E i \in 1..Len(f) : f[i] \notin IdChars
       THEN "bad_char:" \o f[CHOOSE i \in 1..Len(f) : f[i] \notin IdChars /\ \A k \in 1..(i - 1) : f[k] \in IdChars]
  ELSE IF Len(f) > MaxLen THEN "too_long"
  ELSE "none"
\* why a rule is not a valid rule
RuleDefect(r) ==
  IF NFields(r) < 3 THEN "too_few_fields"
  ELSE IF NFields(r) > 3 THEN "too_many_fields"
  ELSE IF \E j \in 1..3 : ~ValidField(Field(r, j))
       THEN FieldDefect(Field(r, CHOOSE j \in 1..3 : ~ValidField(Field(r, j)) /\ \A k \in 1..(j - 1) : ValidField(Field(r, k))))
  ELSE "none"
RuleSetDefect(rs) ==
  IF ValidRuleSet(rs) THEN "none"
  ELSE RuleDefect(rs[CHOOSE i \in DOMAIN rs : ~ValidRule(rs[i]) /\ \A k \in 1..(i - 1) : ValidRule(rs[k])])

\* what is remarkable about a valid rule set
HasMaxLen(rs) == \E i \in DOMAIN rs : \E j \in 1..NFields(rs[i]) : Len(Field(rs[i], j)) = MaxLen
ContentClass(chars, maxlen) ==
  (IF maxlen THEN "max_length" ELSE "") \o
  (IF chars \cap Special # {} THEN (IF maxlen THEN "+" ELSE "") \o "special:" \o Tag(chars)
   ELSE IF maxlen THEN ""
   ELSE IF chars \cap Upper # {} THEN "upper_case"
   ELSE IF chars \cap Digit # {} THEN "digit"
   ELSE IF "*" \in chars THEN "wildcard" ELSE "plain")

\* class of the rules responsible for an authorisation answer
MatchClass(rs) ==
  IF Len(rs) = 0 THEN "no_rules"
  ELSE IF CharsOfSet(rs) \cap RegexMeta # {} THEN "regex_meta:" \o Tag(CharsOfSet(rs) \cap RegexMeta)
  ELSE IF "*" \in CharsOfSet(rs) THEN "wildcard"
  ELSE ContentClass(CharsOfSet(rs), HasMaxLen(rs))
MatchingRules(rs, t) == SelectSeq(rs, LAMBDA r : RuleMatches(r, t))
=============================================================================
