\* behaviour generation for the routing family: exhaustive enumeration of the universes GenQuick, then random
\* rule lists with edited queries (4 of 5 behaviours) and fields around the length bound (1 of 5)
CONSTANTS
  MaxLen = 64
  DesignUniverses = {}
  UFields <- FieldsOf
  UAsk <- AskOf
  UBadRules <- BadRulesOf
  UMaxRules <- MaxRulesOf
  GenUniverses <- GenQuick
  SimChars <- SimCharsStd
  LongChars <- SimCharsLong
  SimMaxLen = 4
  BadFields <- BadFieldsStd
  Batch = 16
  LOG = TRUE
  SimDepth = 20
INIT InitGen
NEXT NextSim
INVARIANT PrintBehaviour
CHECK_DEADLOCK FALSE
