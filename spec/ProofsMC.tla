------------------------------ MODULE ProofsMC ------------------------------
(***************************************************************************)
(* Case table for Proofs (C08).  Used three ways:                           *)
(*  - design check: Next picks ONE point of the product                      *)
(*        client configuration x store history x query x proof descriptor   *)
(*    into cse; the theorems T_* below are invariants, so an exhaustive TLC  *)
(*    run checks them on every point (one state per point);                  *)
(*  - exhaustive generation: NextBeh picks one behaviour = one client/store  *)
(*    configuration (the Config event) followed by the list of ALL queries of*)
(*    one kind at one height with all their proof descriptors; the invariant *)
(*    PrintBehaviour prints it as JSON.  One state per behaviour, every      *)
(*    point of the product is printed exactly once;                          *)
(*  - sampling (quick tier): NextSim picks one behaviour at random under     *)
(*    tlc -simulate.                                                         *)
(* There are no interleavings here - see the header of Proofs.tla.           *)
(***************************************************************************)
EXTENDS Proofs, Json, TLC, SequencesExt

CONSTANTS Heights,     \* heights of the counterparty that exist, e.g. {1,2,3}
          TypesU,      \* client types exercised
          Hists,       \* store histories: records [name |-> "A", S |-> <<S1, S2, S3>>]
          KeysU,       \* key universe: tuples <<kind, s, d, n>>
          Vals,        \* value indices (stored and claimed)
          Latests,     \* latest heights of the client
          RootSets,    \* sets of heights with a recorded consensus state
          DelaysTM,    \* tm: delay in ticks
          DelaysBSC,   \* bsc: delay in blocks (>= 1: 2*len(validators)/3 + 1)
          DelaysETH,   \* eth: delay in blocks
          Nows,        \* tm: current time of the verifying chain in ticks
          VariantsU,   \* alterations exercised
          Modes,       \* "diag": proofs generated for the queried key at the queried height (all alterations);
                       \* "full": proofs generated for every key at every height
          LOG, SimDepth

VARIABLES on, cse, evlog
vars == <<on, cse, evlog>>

ASSUME VariantsU \subseteq Variants /\ TypesU \subseteq Types
ASSUME \A hs \in Hists : WellFormedStore(hs.S) /\ DOMAIN hs.S = Heights
ASSUME 0 \notin DelaysBSC

-----------------------------------------------------------------------------
(* the product *)
DelaysOf(t) == CASE t = "tm" -> DelaysTM [] t = "bsc" -> DelaysBSC [] OTHER -> DelaysETH
NowsOf(t) == IF t = "tm" THEN Nows ELSE {0}
\* tm: the header of height h was processed at tick h (the harness updates the client height by height)
ProcOf(t, roots) == IF t = "tm" THEN {<<h, h>> : h \in roots} ELSE {}

Clients == UNION {{[type |-> t, latest |-> l, roots |-> r, delay |-> d, proc |-> ProcOf(t, r)] :
                     l \in Latests, r \in RootSets, d \in DelaysOf(t)} : t \in TypesU}

Queries == {[kind |-> k[1], s |-> k[2], d |-> k[3], n |-> k[4], v |-> v, h |-> h] : k \in KeysU, v \in Vals, h \in Heights}
ProofsAll == {[at |-> a, kind |-> k[1], s |-> k[2], d |-> k[3], n |-> k[4], variant |-> x] :
                a \in Heights, k \in KeysU, x \in VariantsU}
ProofsDiag(q) == {[at |-> q.h, kind |-> q.kind, s |-> q.s, d |-> q.d, n |-> q.n, variant |-> x] : x \in VariantsU}
ProofsFor(mode, q) == IF mode = "diag" THEN ProofsDiag(q) ELSE ProofsAll

Case0 == [cl |-> [type |-> "tm", latest |-> 0, roots |-> {}, delay |-> 0, proc |-> {}],
          S |-> [h \in Heights |-> {}], now |-> 0,
          q |-> [kind |-> "commit", s |-> "", d |-> "", n |-> 0, v |-> 0, h |-> 0],
          pf |-> [at |-> 0, kind |-> "commit", s |-> "", d |-> "", n |-> 0, variant |-> "empty"]]

\* design check: the initial states are the client x store configurations (so that TLC's workers share
\* the product), one step then picks the query and the proof: one state per point of the product
Bases == UNION {{[Case0 EXCEPT !.cl = cl, !.S = hs.S, !.now = now] : now \in NowsOf(cl.type), hs \in Hists} : cl \in Clients}

Init == on = FALSE /\ cse \in Bases /\ evlog = <<>>

Next ==
  /\ ~on /\ on' = TRUE /\ evlog' = evlog
  /\ \E q \in Queries, pf \in ProofsAll : cse' = [cse EXCEPT !.q = q, !.pf = pf]

\* generation starts from a single state
InitGen == on = FALSE /\ cse = Case0 /\ evlog = <<>>

Spec == Init /\ [][Next]_vars

-----------------------------------------------------------------------------
(* Sanity theorems about the decision, checked on every point *)
V(c) == Verify(c.cl, c.S, c.now, c.q, c.pf)

\* accepted => the fact is in the store at that height, the height is recorded and not above latest
T_Sound == on /\ V(cse) => Holds(cse.S, cse.q) /\ cse.q.h \in cse.cl.roots /\ cse.q.h <= cse.cl.latest

\* never with an altered proof, a proof for another key, or a proof for another root
T_OnlyIntactProofs ==
  on /\ V(cse) => /\ cse.pf.at = cse.q.h /\ KeyOf(cse.pf) = KeyOf(cse.q)
                  /\ cse.pf.variant \notin {"otherStore", "truncated", "valueSwapped", "empty", "garbage", "shadowKey"}
                  /\ (cse.cl.type = "tm" => cse.pf.variant # "reordered")

\* monotone in the delay: what verifies with delay d verifies with every smaller delay
T_DelayMonotone == on /\ V(cse) => \A d \in 0..cse.cl.delay : V([cse EXCEPT !.cl.delay = d])

\* monotone in time (tm) and in the client's progress (bsc / eth: a later latest height never un-verifies)
T_TimeMonotone == on /\ V(cse) => V([cse EXCEPT !.now = @ + 1]) /\ V([cse EXCEPT !.cl.latest = @ + 1])

\* at most one value verifies per key and height
T_Functional == on /\ V(cse) => \A v \in Vals \ {cse.q.v} : ~V([cse EXCEPT !.q.v = v])

\* completeness: a stored fact at a recorded height not above latest with the delay elapsed is
\* verifiable with the untouched proof for its key at that height
T_Complete ==
  on /\ Holds(cse.S, cse.q) /\ HeightOK(cse.cl, cse.q.h) /\ RootKnown(cse.cl, cse.q.h) /\ DelayElapsed(cse.cl, cse.q.h, cse.now)
     => V([cse EXCEPT !.pf = [at |-> cse.q.h, kind |-> cse.q.kind, s |-> cse.q.s, d |-> cse.q.d, n |-> cse.q.n, variant |-> "genuine"]])

\* the decision reads the store only at the proof height
T_Local == on => \A hs \in Hists : hs.S[cse.q.h] = cse.S[cse.q.h] => (V(cse) <=> V([cse EXCEPT !.S = hs.S]))

\* consequence of the BSC delay formula: nothing is verifiable at the client's latest height
T_BscNeverAtLatest == on /\ cse.cl.type = "bsc" /\ V(cse) => cse.q.h < cse.cl.latest

\* Why names a failing conjunct exactly when Verify is false
T_WhyConsistent == on => (V(cse) <=> Why(cse.cl, cse.S, cse.now, cse.q, cse.pf) = "")

\* both outcomes occur (checked by the driver from the coverage of these two state predicates being violated)
SomeAccept == ~(on /\ V(cse))
SomeReject == ~(on /\ ~V(cse))

-----------------------------------------------------------------------------
(* Generation *)
BehIds == UNION {{[cl |-> cl, hist |-> hs.name, now |-> now, kind |-> k, h |-> h, mode |-> m] :
                    now \in NowsOf(cl.type), hs \in Hists, k \in {x[1] : x \in KeysU}, h \in Heights, m \in Modes} :
                  cl \in Clients}

HistS(name) == (CHOOSE hs \in Hists : hs.name = name).S

ConfigEv(b) == [act |-> "Config",
                cfg |-> [type |-> b.cl.type, hist |-> b.hist, S |-> HistS(b.hist), latest |-> b.cl.latest, roots |-> b.cl.roots,
                         delay |-> b.cl.delay, proc |-> b.cl.proc, now |-> b.now, mode |-> b.mode]]

VerifyEvs(b) ==
  UNION {{[act |-> "Verify", q |-> q, pf |-> pf] : pf \in ProofsFor(b.mode, q)} :
           q \in {x \in Queries : x.kind = b.kind /\ x.h = b.h}}

Beh(b) == <<ConfigEv(b)>> \o SetToSeq(VerifyEvs(b))

NextBeh == ~on /\ on' = TRUE /\ cse' = cse /\ \E b \in BehIds : evlog' = Beh(b)
NextSim == ~on /\ on' = TRUE /\ cse' = cse /\ evlog' = Beh(RandomElement(BehIds))

PrintBehaviour == (LOG /\ Len(evlog) >= SimDepth /\ Len(evlog) > 0) => PrintT(<<"BEH", ToJson(evlog)>>)

\* sizes, printed once by the driver's generation runs (evaluated in the initial state)
PrintSizes == on \/ PrintT(<<"SIZES", Cardinality(Clients), Cardinality(Hists), Cardinality(Queries), Cardinality(ProofsAll), Cardinality(BehIds)>>)
=============================================================================
