#!/bin/bash
# usage: mutant_run.sh <name> <patch.diff> <tier> <prop> [<prop>...]
# Runs checks against a scratch worktree of /repo with the patch applied (never touches /repo's files).
set -u
name=$1; patch=$2; tier=$3; shift 3
root=/tmp/mut-$name
rm -rf $root; mkdir -p $root
git -C /repo worktree add --detach $root/repo HEAD -q || exit 3
git -C $root/repo apply "$patch" || { echo "patch does not apply"; git -C /repo worktree remove --force $root/repo; exit 3; }
rsync -a --exclude .work --exclude .git --exclude replays --exclude evidence /verif/ $root/verif/
mkdir -p $root/verif/evidence
sed -i "s#=> /repo#=> $root/repo#" $root/verif/harness/go.mod
cd $root/verif
for p in "$@"; do
  echo "=== $p ($tier) against $name"
  VERIF_REPO=$root/repo timeout 3000 ./check $p --tier $tier 2>&1 | grep -v "^    {" | cut -c1-400 | tail -12
  echo "exit=${PIPESTATUS[0]}"
done
cd /; git -C /repo worktree remove --force $root/repo; rm -rf $root
