------------------------------- MODULE MCCore -------------------------------
(* Constant definitions for the TibcCore configurations (cfg files cannot hold tuples or functions). *)
EXTENDS TibcCoreMC

Links3 == [c \in Chains |-> Chains \ {c}]                      \* T3: full mesh A, B, C
LinksSparse == [c \in Chains |-> IF c = "A" THEN {"B", "C"} ELSE {"A"}]   \* A-B and A-C only: B and C do not know each other
RuleSetsSmall == { {}, {<<"A", "*", "mock">>} }
NoPairs == {}
ExpireCA == {<<"C", "A">>}
ExpireCB == {<<"C", "B">>}
RuleSetsGen == { {}, {<<"A", "C", "mock">>}, {<<"*", "*", "*">>}, {<<"A", "*", "mock">>, <<"C", "A", "*">>},
                 {<<"*", "C", "nft">>}, {<<"C", "A", "mock">>},
                 \* near misses: "X<" / "X>" = the name X without its first / last character (another identifier); in whatever
                 \* order the three rules are stored, a prefix, suffix, substring or unanchored-pattern comparison takes one
                 \* of them for (A, C, mock)
                 {<<"A", "C", "mock>">>, <<"A<", "C", "mock">>, <<"A<", "C", "mock>">>},
                 {<<"C", "A", "mock>">>, <<"C<", "A", "mock">>, <<"C<", "A", "mock>">>, <<"A", "C", "mock">>} }
=============================================================================
