#!/usr/bin/env python3
"""Merges Go cover profiles (mode set) and reports, for the files the properties are anchored in (and every other
non-generated file under modules/tibc), the statement coverage and the source of the blocks never reached."""
import sys, os, json, glob, re, collections
prof, out = sys.argv[1], sys.argv[2]
V = os.path.dirname(os.path.dirname(os.path.abspath(__file__)))
PFX = "github.com/bianjieai/tibc-go/"
blocks = {}
for f in glob.glob(os.path.join(prof, "*.out")):
    for line in open(f):
        if line.startswith("mode:"):
            continue
        m = re.match(r"(.+):(\d+)\.(\d+),(\d+)\.(\d+) (\d+) (\d+)$", line.strip())
        if not m:
            continue
        k = (m.group(1), int(m.group(2)), int(m.group(3)), int(m.group(4)), int(m.group(5)), int(m.group(6)))
        blocks[k] = blocks.get(k, 0) + int(m.group(7))
with open(os.path.join(out, "merged.out"), "w") as fh:
    fh.write("mode: set\n")
    for k, c in sorted(blocks.items()):
        fh.write("%s:%d.%d,%d.%d %d %d\n" % (k + (1 if c else 0,)))
anch = set()
for l in open(os.path.join(V, "properties.jsonl")):
    for a in json.loads(l)["anchors"]["files"]:
        anch.add(a)
per = collections.defaultdict(lambda: [0, 0, []])
for k, c in blocks.items():
    f = k[0][len(PFX):] if k[0].startswith(PFX) else k[0]
    if f.endswith(".pb.go") or f.endswith(".pb.gw.go") or "/testing/" in f or "/simulation/" in f or "/client/cli/" in f:
        continue
    per[f][1] += k[5]
    if c:
        per[f][0] += k[5]
    else:
        per[f][2].append(k[1:5])
rep = open(os.path.join(out, "report.txt"), "w")
def w(s=""):
    rep.write(s + "\n")
w("statement coverage of /repo by the behaviours replayed in the quick tier (merged over families)")
for f in sorted(per, key=lambda f: (f not in anch, f)):
    cov, tot, _ = per[f]
    w("%s %5.1f%% (%d/%d)  %s" % ("*" if f in anch else " ", 100.0 * cov / max(tot, 1), cov, tot, f))
w()
w("blocks never reached in anchored files (* above)")
for f in sorted(per):
    if f not in anch:
        continue
    src = open(os.path.join(os.environ.get("VERIF_REPO", "/repo"), f)).read().split("\n")
    for (l1, c1, l2, c2) in sorted(per[f][2]):
        w("%s:%d-%d" % (f, l1, l2))
        for i in range(l1, min(l2, l1 + 6) + 1):
            w("    %4d  %s" % (i, src[i - 1]))
rep.close()
tc = sum(v[0] for v in per.values()); tt = sum(v[1] for v in per.values())
print("total %.1f%% (%d/%d statements); report: %s" % (100.0 * tc / max(tt, 1), tc, tt, os.path.join(out, "report.txt")))
