------------------------------ MODULE TibcAppsMC ------------------------------
(***************************************************************************)
(* Closed system for TibcApps: users mint, transfer locally and send NFTs   *)
(* and multi-token units across chains (directly or through the relay       *)
(* chain B); a relayer delivers, replays and alters messages; governance    *)
(* changes B's whitelist.  Exhaustive design check (Next, small constants), *)
(* behaviour generation (NextSim).                                          *)
(***************************************************************************)
EXTENDS TibcApps, TibcCoreMC

CONSTANTS NftNatives,    \* native NFT classes users may issue (tuples <<"n", seg..>>)
          NftIds,
          MtNatives, MtIds, Amounts,
          AppSenders,    \* chains whose users mint natively
          Receivers,     \* receiver strings used in transfers (accounts and the invalid "bad")
          MaxPkts        \* bound on application packets (model checking only)

AInit ==
  /\ Init
  /\ led = [c \in Chains |-> EmptyLed]
  /\ tg = {} /\ pk = {} /\ minted = {}

\* next-state of the composed system for event e
DoApp(e) ==
  LET res == AppStepRes(e) IN
  /\ cs' = [cs EXCEPT ![e.c] = res.r]
  /\ led' = [led EXCEPT ![e.c] = res.L]
  /\ ever' = [x \in Chains |-> EverOf(x, ever[x], cs'[x])]
  /\ sent' = IF e.act = "AppSend" /\ res.ok THEN sent \cup {res.pkt} ELSE sent
  /\ delivered' = IF e.act = "Recv" /\ res.ok THEN delivered \cup {[c |-> e.c, pkt |-> e.pkt, exp |-> RecvFrom(e.c, e.pkt) \in cs[e.c].ex]} ELSE delivered
  /\ acked' = IF e.act = "Ack" /\ res.ok THEN acked \cup {[c |-> e.c, pkt |-> e.pkt, ack |-> e.ack, exp |-> AckFrom(e.c, e.pkt) \in cs[e.c].ex]} ELSE acked
  /\ cb1' = cb1 \cup res.calls
  /\ cb2' = cb2 \cup (cb1 \cap res.calls)
  /\ frozen' = frozen
  /\ GhostNext(e, res.ok, led[e.c], res.L, res.calls, res.wack, res.pkt)

-------------------------------------------------------------------------------
\* a native NFT id is minted at most once per chain: re-minting an id whose token was burnt by a transfer would alias
\* two assets in the lineage ghost
MintedNft == {[act |-> "Mint", c |-> m[1][1], k |-> "nft", cls |-> m[1][2], id |-> m[1][3], u |-> u, amt |-> 1] : m \in minted, u \in Users}
MintEvents ==
     ({[act |-> "Mint", c |-> c, k |-> "nft", cls |-> cl, id |-> i, u |-> u, amt |-> 1] :
         c \in AppSenders, cl \in NftNatives, i \in NftIds, u \in Users} \ MintedNft)
\cup {[act |-> "Mint", c |-> c, k |-> "mt", cls |-> cl, id |-> i, u |-> u, amt |-> n] :
        c \in AppSenders, cl \in MtNatives, i \in MtIds, u \in {"u1"}, n \in Amounts}

NftTokens(c) == {<<x[1], x[2]>> : x \in led[c].nft}
MtTokens(c)  == {<<x[1], x[2]>> : x \in led[c].sup}

SendEventsApp ==
  UNION {   {[act |-> "AppSend", c |-> c, k |-> "nft", cls |-> t[1], id |-> t[2], u |-> u, rcv |-> rc, dst |-> d, relay |-> rl, amt |-> 1] :
               t \in NftTokens(c), u \in Users, rc \in Receivers, d \in (Chains \ {c}) \cup {"Z"}, rl \in UserRelays \cup {"Z"}}
       \cup {[act |-> "AppSend", c |-> c, k |-> "mt", cls |-> t[1], id |-> t[2], u |-> u, rcv |-> rc, dst |-> d, relay |-> rl, amt |-> n] :
               t \in MtTokens(c), u \in Users, rc \in Receivers, d \in (Chains \ {c}) \cup {"Z"}, rl \in UserRelays \cup {"Z"}, n \in Amounts \cup {0}}
        : c \in Chains}

XferEvents ==
  UNION {   {[act |-> "Xfer", c |-> c, k |-> "nft", cls |-> t[1], id |-> t[2], u |-> u, to |-> v, amt |-> 1] :
               t \in NftTokens(c), u \in Users, v \in Users}
       \cup {[act |-> "Xfer", c |-> c, k |-> "mt", cls |-> t[1], id |-> t[2], u |-> u, to |-> v, amt |-> n] :
               t \in MtTokens(c), u \in Users, v \in Users, n \in Amounts}
        : c \in Chains}

\* alterations of the application data of a genuine message (the packet layer must refuse all of them)
AltData(d) ==
     {[d EXCEPT !.rcv = v] : v \in Receivers \ {d.rcv}}
\cup {[d EXCEPT !.away = ~d.away]}
\cup {[d EXCEPT !.id = v] : v \in (NftIds \cup MtIds) \ {d.id}}
\cup (IF d.k = "mt" THEN {[d EXCEPT !.amt = v] : v \in Amounts \ {d.amt}} ELSE {})
AltDataMsg(m) == IF m.act \in {"Recv", "Ack"}
                 THEN {[act |-> m.act, c |-> m.c, tag |-> "data"] @@ [m EXCEPT !.pkt.data = v] : v \in AltData(m.pkt.data)}
                 ELSE {}

AppOk(S) == {e \in S : AppStepRes(e).ok}
PickOrA(S, alt) == IF S = {} THEN alt ELSE RandomElement(S)

ANext ==
  \/ \E e \in MintEvents \cup XferEvents \cup RuleEvents : DoApp(e) /\ Log(e)
  \/ Cardinality(pk) < MaxPkts /\ \E e \in SendEventsApp : DoApp(e) /\ Log(e)
  \/ \E e \in Genuine : DoApp(e) /\ Log(e)
  \/ AdvOn /\ \E e \in UNION {AltDataMsg(m) : m \in Genuine} : DoApp(e) /\ Log(e)

ASpec == AInit /\ [][ANext]_avars

ASimEvent ==
  LET roll   == RandomElement(1..20)
      mints  == AppOk(MintEvents)
      aMint  == RandomElement(MintEvents)
      sends  == AppOk(SendEventsApp)
      honest == PickOrA(AppOk(Genuine), PickOrA(sends, aMint))
  IN  IF roll <= 2 THEN PickOrA(mints, aMint)
      ELSE IF roll <= 6 THEN PickOrA(sends, PickOrA(mints, aMint))
      ELSE IF roll <= 7 THEN PickOrA(SendEventsApp, aMint)                  \* mostly failing sends
      ELSE IF roll <= 13 THEN honest
      ELSE IF roll <= 14 THEN PickOrA(Genuine, aMint)                        \* replays
      ELSE IF roll <= 15 THEN PickOrA(AppOk(XferEvents), honest)
      ELSE IF roll <= 16 THEN PickOrA(RuleEvents \cup ExportEvents, honest)
      ELSE IF roll <= 17 THEN PickOrA(AppOk(CleanEvents), honest)
      ELSE IF AdvOn /\ Genuine # {}
           THEN (LET m == RandomElement(Genuine) IN
                 IF roll <= 19 /\ AltDataMsg(m) # {} THEN RandomElement(AltDataMsg(m)) ELSE RandomElement(AltMsg(m)))
           ELSE honest

ANextSim == \E e \in {ASimEvent} : DoApp(e) /\ Log(e)
=============================================================================
