\* trace validation of the application family against the as-coded model (flags: tree_flags.json)
CONSTANTS
  Chains = {"A","B","C"}
  Names = {"A","B","C","Z"}
  Ports = {"mock","nft","mt","ghost"}
  BoundPorts = {"mock","nft","mt"}
  Data = {}
  DecodableData = {}
  EmptyData <- NoDataRecT
  AckTags = {"unauth","errX","ok","err"}
  MaxSeq = 9
  F_BIND = FALSE
  F_ACKCB_SRC_ONLY = TRUE
  F_STATUS = TRUE
  F_RELAY_DST_ERRACK = TRUE
  Users = {"u1","u2"}
  NftStarts = {"nft","nftkit"}
  MtStarts = {"mt"}
  MaxUnits = 1000000
SPECIFICATION ATraceSpec
INVARIANT Done
CHECK_DEADLOCK FALSE
