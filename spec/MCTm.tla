-------------------------------- MODULE MCTm --------------------------------
(* Constant definitions for the TmClient configurations (cfg files cannot hold records). *)
EXTENDS TmClientMC

P(n, d, per, dr, rv) == [num |-> n, den |-> d, period |-> per, drift |-> dr, rev |-> rv]

\* design check: a trusting period short enough to expire within MaxNow
ParsSmall == {P(1, 3, 2, 1, 1)}
ParsTwo == {P(1, 3, 2, 1, 1), P(2, 3, 3, 2, 1)}
ParsDesign == IF ParSel = 1 THEN ParsSmall ELSE ParsTwo
LevelsAll == {<<1, 3>>, <<1, 2>>, <<2, 3>>}
\* quick design check: the two ends of the allowed range; thorough: all three
LevelsDesign == IF ParSel = 1 THEN {<<1, 3>>, <<2, 3>>} ELSE LevelsAll
\* generation: trust levels 1/3, 1/2, 2/3; trusting periods 5..12 ticks; drift 1..3 ticks; revisions 1, 2
ParsGen == {P(l[1], l[2], per, dr, rv) : l \in {<<1, 3>>, <<1, 2>>, <<2, 3>>}, per \in {5, 8, 12}, dr \in {1, 2, 3}, rv \in {1, 2}}
=============================================================================
