"""Generic pipeline for a trace-validated family:
   TLC design check -> TLC behaviour generation -> real-code execution -> TLC trace check -> verdicts."""
import glob
import json
import os
import shutil
import sys
import time
import collections

from . import common as C


_KEYS = {}
_BEHS = {}


def _fam_key(fam, tier, seed, hkey):
    k = (fam["name"], tier, seed, hkey)
    if k not in _KEYS:
        _KEYS[k] = _fam_key0(fam, tier, seed, hkey)
    return _KEYS[k]


def _fam_key0(fam, tier, seed, hkey):
    spec_hash = C.dir_hash(C.SPEC, (".tla", ".cfg"))
    beh_hash = C.dir_hash(os.path.join(C.VERIF, "behaviours"), (".json",)) if os.path.isdir(os.path.join(C.VERIF, "behaviours")) else ""
    lib_hash = C.dir_hash(os.path.join(C.VERIF, "vlib"), (".py",))
    return C.sha(fam["name"], tier, seed, hkey, spec_hash, beh_hash, lib_hash)[:20]


def fixed_behaviours(fam):
    out = []
    for fp in sorted(glob.glob(os.path.join(C.VERIF, "behaviours", fam["name"], "*.json"))):
        d = json.load(open(fp))
        for i, b in enumerate(d["behaviours"]):
            out.append(dict(name="%s#%d" % (os.path.basename(fp), i), events=b))
    return out


def run_family(fam, tier, seed):
    """Runs (or fetches from the per-tree cache) the whole pipeline of a family. Returns the result dict."""
    binp, hkey = C.ensure_harness()
    key = _fam_key(fam, tier, seed, hkey)
    cdir = os.path.join(C.WORK, "cache", key)
    with C.Lock("fam-" + fam["name"]):
        resf = os.path.join(cdir, "famrun.json")
        if os.path.exists(resf):
            r = json.load(open(resf))
            r["cached"] = True
            r["cdir"] = cdir
            return r
        t0 = time.time()
        work = C.new_workdir(fam["name"])
        try:
            r = _run_family(fam, tier, seed, binp, work)
            r["wall_s"] = round(time.time() - t0, 1)
            r["harness_key"] = hkey
            os.makedirs(cdir, exist_ok=True)
            shutil.copy(os.path.join(work, "behaviours.json"), cdir)
            json.dump(r, open(resf, "w"))
            _prune_cache()
            r["cached"] = False
            r["cdir"] = cdir
            return r
        finally:
            shutil.rmtree(work, ignore_errors=True)


def _prune_cache(keep=12):
    root = os.path.join(C.WORK, "cache")
    ds = sorted((os.path.join(root, d) for d in os.listdir(root)), key=os.path.getmtime)
    for d in ds[:-keep]:
        shutil.rmtree(d, ignore_errors=True)


# design runs that must complete without a violation (anything else means the specification itself is wrong -> exit 2)
MANDATORY_ROLES = ("intended", "liveness")


def _run_family(fam, tier, seed, binp, work):
    C.copy_specs(work)
    # 1. design checks (exhaustive TLC on the specification)
    designs = []
    for d in fam["design"]:
        ov = d.get("overrides_" + tier) or {}
        try:
            res = C.design_check(work, d["module"], d["cfg"], overrides=ov, timeout=d.get("timeout_" + tier, 900),
                                 extra=d.get("extra", ()))
        except C.Inconclusive as e:
            if d["role"] in MANDATORY_ROLES:
                raise
            # the as-coded run only documents predicted deviations; it does not decide anything
            res = dict(transitions=0, states=0, depth=0, violated=[], complete=False, wall_s=0, cfg=d["cfg"], module=d["module"],
                       note="as-coded design run did not finish: " + str(e)[:120])
        res["role"] = d["role"]
        res["overrides"] = ov
        if d["role"] in MANDATORY_ROLES and res["violated"]:
            raise C.Inconclusive("the intended specification violates %s - the specification is wrong" % res["violated"])
        if d["role"] in MANDATORY_ROLES and not res["complete"]:
            raise C.Inconclusive("design check did not complete: %s" % res)
        designs.append(res)
    # 2. behaviours: fixed regression behaviours + TLC simulation of the as-coded model
    g = fam["gen"]
    num, depth = g[tier]
    behs = [dict(name=b["name"], events=b["events"]) for b in fixed_behaviours(fam)]
    for gi, (cfg, share) in enumerate(g["cfgs"]):
        n = max(1, int(num * share))
        dep = int(depth * g.get("depth_factor", {}).get(cfg, 1))
        sim = C.simulate(work, g["module"], cfg, n, dep, seed * 7919 + gi, timeout=g.get("timeout", 600))
        behs += [dict(name="%s/seed%d#%d" % (cfg, seed, i), events=b) for i, b in enumerate(sim)]
    json.dump(behs, open(os.path.join(work, "behaviours.json"), "w"))
    # 3. execute on the real code
    h = fam["harness"]
    trace = C.run_harness(binp, work, h["family"], h["chains"], h["links"], [b["events"] for b in behs],
                          extra_env=h.get("env"), params=h.get("params"))
    # 4. TLC trace check (MONITOR + REFINE)
    t = fam["trace"]
    res = C.trace_check(work, t["module"], t["cfg"], trace)
    # 5. statistics from the recorded trace
    stats = collections.Counter()
    acts = collections.Counter()
    distinct = set()
    samples = {}
    want = {(x["tr"], x["i"]) for x in res["bad"] + res["div"]}
    ctx = {}
    for line in open(trace):
        rec = json.loads(line)
        ev = rec["ev"]
        if (rec["tr"], rec["i"]) in want:
            ctx["%d/%d" % (rec["tr"], rec["i"])] = dict(ev=ev, code=rec.get("code", 0), log=rec.get("log", "")[:300], calls=rec.get("calls"),
                                                        info=rec.get("info"))
        if ev["act"] == "Reset":
            continue
        okk = "ok" if rec.get("code", 0) == 0 else "rej"
        acts["%s:%s:%s" % (ev["act"], ev.get("tag", "gen"), okk)] += 1
        stats["steps"] += 1
        stats[okk] += 1
        distinct.add(C.sha(json.dumps(ev, sort_keys=True), json.dumps(rec.get("st", rec.get("status")), sort_keys=True)))
        k = "%s:%s" % (ev["act"], okk)
        if k not in samples:
            samples[k] = dict(ev=ev, code=rec.get("code", 0), log=rec.get("log", "")[:160], calls=rec.get("calls"), status=rec.get("status"))
    for x in res["bad"] + res["div"]:
        x["ctx"] = ctx.get("%d/%d" % (x["tr"], x["i"]))
    return dict(family=fam["name"], tier=tier, seed=seed, designs=designs, n_behaviours=len(behs),
                behaviour_names=[b["name"] for b in behs], bad=res["bad"], div=res["div"], lines=res["n"], steps=res["steps"],
                acts=dict(acts), stats=dict(stats), distinct=len(distinct), samples=list(samples.values())[:12])


def behaviour_of(fam, tier, seed, tr, cdir=None):
    """Events of trace number tr (1-based) of the cached family run."""
    if cdir is None:
        binp, hkey = C.ensure_harness()
        cdir = os.path.join(C.WORK, "cache", _fam_key(fam, tier, seed, hkey))
    if cdir not in _BEHS:
        _BEHS.clear()
        _BEHS[cdir] = json.load(open(os.path.join(cdir, "behaviours.json")))
    return _BEHS[cdir][tr - 1]


def merge_runs(pairs):
    """pairs: [(fam, r)]. Returns a run dict over all of them; bad/div entries remember their family."""
    out = dict(designs=[], n_behaviours=0, bad=[], div=[], steps=0, acts={}, distinct=0, samples=[], wall_s=0, cached=True, fams={})
    for fam, r in pairs:
        out["designs"] += r["designs"]
        out["n_behaviours"] += r["n_behaviours"]
        for x in r["bad"]:
            out["bad"].append(dict(x, fam=fam["name"], cdir=r.get("cdir")))
        for x in r["div"]:
            out["div"].append(dict(x, fam=fam["name"]))
        out["steps"] += r["steps"]
        for k, v in r["acts"].items():
            out["acts"][fam["name"] + ":" + k] = v
        out["distinct"] += r["distinct"]
        out["samples"] += r["samples"][:6]
        out["wall_s"] += r.get("wall_s", 0)
        out["cached"] = out["cached"] and bool(r.get("cached"))
        out["fams"][fam["name"]] = fam
    return out


def verdict(prop, fam, tier, seed, r, extra_cov=None, level_note=None):
    """Turns a family run (or a merge of several) into the verdict for one property. Returns exit code."""
    t0 = time.time()
    known = C.load_known()
    fams = r.get("fams") or {fam["name"]: fam}
    mine = [b for b in r["bad"] if b["v"]["p"] == prop]
    viol, kf = [], {}
    for b in mine:
        k = C.match_known(prop, b["v"], known)
        if k:
            kf.setdefault(k["id"], dict(k=k, n=0))["n"] += 1
        else:
            viol.append(b)
    for kid, x in sorted(kf.items()):
        print("KNOWN-FINDING: property=%s %s (%s; seen %d times in this run)" % (prop, x["k"]["what"], kid, x["n"]))
    for d in r["div"][:20]:
        print("DIVERGENCE family=%s trace=%s step=%s %s: %s" % (d.get("fam", fam["name"]), d["tr"], d["i"], d["v"]["f"], d["v"]["d"]))
        print("    " + json.dumps(d.get("ctx"))[:700])
    replays = []
    seen = set()
    for b in viol:
        fp = (b["v"]["f"], b["v"]["d"])
        if fp in seen:
            continue
        seen.add(fp)
        bfam = fams[b.get("fam", fam["name"])]
        beh = behaviour_of(bfam, tier, seed, b["tr"], b.get("cdir") or r.get("cdir"))
        path = C.save_replay(prop, dict(property=prop, family=bfam["name"], formula=b["v"]["f"], detail=b["v"]["d"],
                                        step=b["i"], behaviour=beh["events"][:b["i"]], name=beh["name"],
                                        harness=bfam["harness"], trace=bfam["trace"]))
        replays.append(path)
        print("VIOLATION property=%s replay=%s" % (prop, path))
        print("  formula %s (%s) failed at step %d of behaviour %s" % (b["v"]["f"], b["v"]["d"], b["i"], beh["name"]))
    intended = [d for d in r["designs"] if d["role"] == "intended"]
    relevant = {k: v for k, v in r["acts"].items()}
    cov = dict(states=sum(d["states"] for d in r["designs"]), transitions=sum(d["transitions"] for d in r["designs"]),
               traces_validated_against_impl=r["n_behaviours"], samples=r["samples"],
               evaluations=r["steps"], distinct_nontrivial=r["distinct"],
               rule="one evaluation = one recorded step of the real code checked by TLC against every formula of the property "
                    "and against the specification's next-state function; distinct = distinct (event, resulting real state) pairs",
               designs=r["designs"], steps_by_action_alteration_outcome=relevant,
               divergences=len(r["div"]), divergence_samples=r["div"][:5],
               known_findings={k: v["n"] for k, v in kf.items()},
               failures_of_this_property=len(mine), unlisted_failures=len(viol),
               checker_cmd="tlc (exhaustive design check; -simulate generation; trace check TraceSpec) + go test -tags verif harness",
               exhaustive=False, reused_family_run=bool(r.get("cached")), family_wall_s=r.get("wall_s"))
    if extra_cov:
        cov.update(extra_cov)
    C.write_evidence(prop, tier, seed, "model_checking", cov, r.get("wall_s", 0) + (time.time() - t0), len(viol),
                     fam.get("assumptions", []))
    return 1 if viol else 0


def replay(prop, fam, path):
    rp = json.load(open(path))
    binp, _ = C.ensure_harness()
    work = C.new_workdir("replay")
    try:
        C.copy_specs(work)
        h = rp.get("harness") or fam["harness"]
        trace = C.run_harness(binp, work, h["family"], h["chains"], h["links"], [rp["behaviour"]], shards=1, extra_env=h.get("env"),
                              params=h.get("params"))
        tr = rp.get("trace") or fam["trace"]
        res = C.trace_check(work, tr["module"], tr["cfg"], trace)
        known = C.load_known()
        mine = [b for b in res["bad"] if b["v"]["p"] == prop and not C.match_known(prop, b["v"], known)]
        for b in mine:
            print("  reproduced: %s (%s) at step %d" % (b["v"]["f"], b["v"]["d"], b["i"]))
        for dv in res.get("div", [])[:10]:
            print("  DIVERGENCE step=%s %s: %s" % (dv.get("i"), dv["v"]["f"], dv["v"]["d"]))
        if mine:
            print("VIOLATION property=%s replay=%s" % (prop, path))
            return 1
        print("replay of %s: no unlisted violation of %s on the current tree" % (path, prop))
        return 0
    finally:
        shutil.rmtree(work, ignore_errors=True)
