\* behaviour generation: one channel, honest traffic, cleans, and replays of every message that was ever genuine
CONSTANTS
  Chains = {"A","B","C"}
  Names = {"A","B","C","Z"}
  Ports = {"mock","nft","ghost"}
  BoundPorts = {"mock","nft","mt"}
  Data = {"d1","d2"}
  DecodableData = {"d2"}
  EmptyData = ""
  AckTags = {"mock","unauth","errX","ok"}
  MaxSeq = 3
  F_BIND = FALSE
  F_ACKCB_SRC_ONLY = TRUE
  F_STATUS = TRUE
  F_RELAY_DST_ERRACK = TRUE
  Links <- Links3
  RuleSets <- RuleSetsGen
  Senders = {"A"}
  Dests = {"C"}
  UserRelays = {"","B"}
  UserPorts = {"mock"}
  UserData = {"d1","d2"}
  RuleChains = {"B"}
  AdvOn = TRUE
  ExpirePairs <- NoPairs
  ExportOn = FALSE
  LOG = TRUE
  SimDepth = 40
  SimMode = "replay"
INIT Init
NEXT NextSim
INVARIANT PrintBehaviour
CHECK_DEADLOCK FALSE
