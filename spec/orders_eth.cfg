\* breadth-first enumeration of every submission order of a fixed tree (tools/gen_eth_orders.py)
CONSTANTS
  F_RESTRICT = TRUE
  MaxId = 0
  MaxNum = 4
  Now0 = 0
  MaxNow = 0
  Dts = {1}
  Ticks = {1}
  GLs = {"same"}
  GUs = {"target"}
  Uncs = {0}
  PertOn = FALSE
  RealN = 0
  RealBudget = 0
  RealTimes <- RealTimes9
  Tree <- T_2_3
  LOG = TRUE
  SimDepth = 11
INIT InitOrders
NEXT NextOrders
INVARIANT PrintBehaviour
CHECK_DEADLOCK FALSE
