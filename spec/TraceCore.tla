------------------------------ MODULE TraceCore ------------------------------
(***************************************************************************)
(* Trace specification for the core family.  trace.ndjson holds one record  *)
(* per executed step of the REAL code (harness/core.go): the event, the     *)
(* transaction's result code, the application callbacks that ran, and the   *)
(* projection of every chain's real state onto TibcCore's variables.        *)
(*                                                                          *)
(* MONITOR: every property formula V_* is evaluated on every recorded step  *)
(* (pre-state = previous line, post-state = this line, histories computed   *)
(* from what the real chains did); failures are collected in bad.           *)
(* REFINE: the recorded step is compared with TibcCore!StepRes, the         *)
(* specification's own next-state function; differences are collected in    *)
(* div.  Neither stops the run, so one finding never hides another.         *)
(***************************************************************************)
EXTENDS TibcCore, Json

TraceLog == ndJsonDeserialize("trace.ndjson")

VARIABLES l, bad, div, dig, app, nsteps
tvars == <<vars, l, bad, div, dig, app, nsteps>>

SetOf(t) == {t[i] : i \in DOMAIN t}
ConvChain(j) == [ns |-> SetOf(j.ns), cm |-> SetOf(j.cm), rc |-> SetOf(j.rc), ak |-> SetOf(j.ak),
                 cp |-> SetOf(j.cp), ma |-> SetOf(j.ma), cl |-> SetOf(j.cl), ex |-> SetOf(j.ex),
                 rules |-> SetOf(j.rules)]
ConvState(st) == [c \in Chains |-> ConvChain(st[c])]
ConvEv(ev) == IF ev.act = "SetRules" THEN [ev EXCEPT !.rules = SetOf(@)] ELSE ev
\* callbacks logged as [kind,port,s,d,n,relay,data,ack,err]
CallsOf(rec) == {<<rec.ev.c, k[1], k[3], k[4], k[5]>> : k \in SetOf(rec.calls)}
Ever0(st) == [x \in Chains |-> EverOf(x, [cm |-> {}, ak |-> {}, cp |-> {}], st[x])]

Fresh(rec) ==
  /\ cs' = ConvState(rec.st)
  /\ ever' = Ever0(ConvState(rec.st))
  /\ sent' = {} /\ delivered' = {} /\ acked' = {} /\ cb1' = {} /\ cb2' = {}
  /\ evlog' = <<>>
  /\ frozen' = [c \in Chains |-> {}]
  /\ dig' = rec.dig /\ app' = rec.app

TraceInit ==
  /\ l = 1 /\ bad = {} /\ div = {} /\ nsteps = 0
  /\ cs = ConvState(TraceLog[1].st)
  /\ ever = Ever0(ConvState(TraceLog[1].st))
  /\ sent = {} /\ delivered = {} /\ acked = {} /\ cb1 = {} /\ cb2 = {}
  /\ evlog = <<>>
  /\ frozen = [c \in Chains |-> {}]
  /\ dig = TraceLog[1].dig /\ app = TraceLog[1].app

-------------------------------------------------------------------------------
(* Property formulas.  e = event, okR = the real code accepted, c = chain, r / r2 = that chain's     *)
(* real state before / after, rec = the raw record.  Each returns a set of failure labels.          *)
Key(p) == <<p.src, p.dst, p.seq>>
SameKey(p, q) == p.src = q.src /\ p.dst = q.dst /\ p.seq = q.seq
DiffFields(p) ==     \* how an accepted packet differs from what was sent under its key
  IF \E q \in sent : SameKey(p, q)
  THEN LET q == CHOOSE q \in sent : SameKey(p, q) IN
       (IF p.data # q.data THEN "data " ELSE "") \o (IF p.port # q.port THEN "port " ELSE "") \o
       (IF p.relay # q.relay THEN "relay " ELSE "")
  ELSE "unsent "
Lbl(prop, f, detail) == [p |-> prop, f |-> f, d |-> detail]
If(cond, lbl) == IF cond THEN {lbl} ELSE {}
Unchanged(rec, st2) == st2 = cs /\ rec.dig = dig /\ rec.app = app

V_C01(e, okR, c, r, r2, rec, st2) ==
  IF e.act # "Recv" THEN {} ELSE
     If(okR /\ ~\E q \in sent : SameKeyData(e.pkt, q), Lbl("C01", "accepted_not_sent", DiffFields(e.pkt)))
\cup If(okR /\ ~(RecvFrom(c, e.pkt) \in Chains /\
                 <<e.pkt.src, e.pkt.dst, e.pkt.seq, CVal(e.pkt)>> \in ever[RecvFrom(c, e.pkt)].cm),
        Lbl("C01", "accepted_not_committed_on_proving_chain", e.proof.mode))
\cup If(~okR /\ ~Unchanged(rec, st2), Lbl("C01", "rejected_but_changed", ""))

V_C02(e, okR, c, r, r2, rec, st2, pred) ==
  LET calls == SetOf(rec.calls)
      recvs == {k \in calls : k[1] = "recv"} IN
     {Lbl("C02", "recv_callback_repeated", "") : k \in {k \in recvs : <<c, "recv", k[3], k[4], k[5]>> \in cb1}}
\cup {Lbl("C02", "recv_callback_off_destination", "") : k \in {k \in recvs : k[4] # c}}
\cup If(Cardinality(DOMAIN rec.calls) # Cardinality(CallsOf(rec)), Lbl("C02", "callback_twice_in_one_tx", ""))
\cup If(e.act = "Recv" /\ pred.ok /\ ~okR /\ e.pkt \in sent, Lbl("C02", "genuine_packet_refused", e.proof.mode))

V_C03(e, okR, c, r, r2, rec, st2, pred) ==
  LET calls == SetOf(rec.calls)
      acks  == {k \in calls : k[1] = "ack"} IN
     {Lbl("C03", "ack_callback_repeated", "") : k \in {k \in acks : <<c, "ack", k[3], k[4], k[5]>> \in cb1}}
\cup {Lbl("C03", "ack_callback_off_source", IF k[6] = c THEN "relay" ELSE "other") : k \in {k \in acks : k[3] # c}}
\cup (IF e.act = "Ack" /\ okR THEN
        If(<<e.pkt.src, e.pkt.dst, e.pkt.seq, CVal(e.pkt)>> \notin r.cm, Lbl("C03", "ack_without_matching_commitment", DiffFields(e.pkt)))
   \cup If(~(AckFrom(c, e.pkt) \in Chains /\ <<e.pkt.src, e.pkt.dst, e.pkt.seq, e.ack>> \in ever[AckFrom(c, e.pkt)].ak),
           Lbl("C03", "ack_not_recorded_on_proving_chain", e.proof.mode))
   \cup If(HasCm(r2, e.pkt.src, e.pkt.dst, e.pkt.seq), Lbl("C03", "commitment_not_dropped", ""))
      ELSE {})
\cup If(e.act = "Ack" /\ ~okR /\ ~Unchanged(rec, st2), Lbl("C03", "rejected_but_changed", ""))
\cup \* acknowledgements are written once: an existing entry changes only by being cleaned
     {Lbl("C03", "ack_overwritten_or_lost", e.act) :
        x \in {x \in r.ak : x \notin r2.ak /\ ~(e.act = "RecvClean" /\ okR /\ x[1] = e.cp.src /\ x[2] = e.cp.dst /\ x[3] <= e.cp.seq)}}
\cup \* what the destination records is what the application returned, and it is not empty
     {Lbl("C03", "recorded_ack_differs_from_app_result", "") :
        k \in {k \in calls : k[1] = "recv" /\ k[9] = "" /\ <<k[3], k[4], k[5], k[8]>> \notin r2.ak}}
\cup {Lbl("C03", "empty_ack_recorded", "") : x \in {x \in r2.ak \ r.ak : x[4] = ""}}

V_C09(e, okR, c, r, r2, rec, st2) ==
  IF e.act # "Send" THEN {} ELSE
  LET p == e.pkt IN
     If(okR /\ p.seq # NsR(r, p.src, p.dst), Lbl("C09", "send_with_wrong_sequence_accepted", ""))
\cup If(okR /\ NsR(r2, p.src, p.dst) # p.seq + 1, Lbl("C09", "sequence_not_advanced_by_one", ""))
\cup If(okR /\ r2.cm # r.cm \cup {<<p.src, p.dst, p.seq, CVal(p)>>}, Lbl("C09", "not_exactly_one_commitment", ""))
\cup If(okR /\ SetOf(rec.sent) # {<<p.src, p.dst, p.seq, p.relay, p.port, p.data>>}, Lbl("C09", "packet_not_announced", ""))
\cup If(okR /\ [r2 EXCEPT !.ns = r.ns, !.cm = r.cm] # r, Lbl("C09", "send_changed_other_state", ""))
\cup If(okR /\ ~(p.src = c /\ p.data # EmptyData /\ (IF p.relay # "" THEN p.relay ELSE p.dst) \in r.cl),
        Lbl("C09", "invalid_send_accepted", ""))
\cup If(~okR /\ ~Unchanged(rec, st2), Lbl("C09", "failed_send_changed_state", ""))

V_C10(e, okR, c, r, r2, rec, st2) ==
     \* the clean point never decreases, on any step
     {Lbl("C10", "clean_point_decreased", e.act) : y \in {y \in r.cp : CpR(r2, y[1], y[2]) < y[3]}}
\cup (IF e.act = "Clean" /\ okR THEN
        LET d == e.cp.dst  N == e.cp.seq IN
           If(~(N > CpR(r, c, d) /\ N <= MaR(r, c, d)), Lbl("C10", "clean_outside_window", ""))
      \cup If(\E x \in r.cm : x[1] = c /\ x[2] = d /\ x[3] <= N, Lbl("C10", "clean_over_unacknowledged_packet", ""))
      \cup If(CpR(r2, c, d) # N, Lbl("C10", "clean_point_not_set", ""))
      \cup If([r2 EXCEPT !.cp = r.cp, !.rc = r.rc, !.ak = r.ak] # r, Lbl("C10", "clean_changed_other_state", ""))
      \cup If(~(r2.rc \subseteq r.rc /\ r2.ak \subseteq r.ak /\
                \A x \in (r.rc \ r2.rc) \cup {<<y[1], y[2], y[3]>> : y \in r.ak \ r2.ak} :
                    x[1] = c /\ x[2] = d /\ x[3] <= N), Lbl("C10", "clean_removed_live_state", ""))
      ELSE {})
\cup (IF e.act = "RecvClean" /\ okR THEN
        LET s == e.cp.src  d == e.cp.dst  N == e.cp.seq
            from == IF d = c /\ e.cp.relay # "" THEN e.cp.relay ELSE s
            gone(x) == x[1] = s /\ x[2] = d /\ x[3] > CpR(r, s, d) /\ x[3] <= N IN
           If(~(from \in Chains /\ <<s, d, 0, N>> \in ever[from].cp), Lbl("C10", "clean_without_source_clean_point", e.proof.mode))
      \cup If(N <= CpR(r, s, d), Lbl("C10", "clean_not_above_previous", ""))
      \cup If(r2.rc # {x \in r.rc : ~gone(x)} \/ r2.ak # {x \in r.ak : ~gone(x)} \/ CpR(r2, s, d) # N
              \/ [r2 EXCEPT !.cp = r.cp, !.rc = r.rc, !.ak = r.ak] # r, Lbl("C10", "clean_effect_not_exact", ""))
      ELSE {})
\cup If(e.act \in {"Clean", "RecvClean"} /\ ~okR /\ ~Unchanged(rec, st2), Lbl("C10", "rejected_but_changed", ""))
\cup \* after cleaning, nothing with a sequence up to the clean point is accepted again
     If(e.act \in {"Recv", "Ack"} /\ okR /\ e.pkt.seq <= CpR(r, e.pkt.src, e.pkt.dst), Lbl("C10", "accepted_below_clean_point", e.act))

V_C11(e, okR, c, r, r2, rec, st2) ==
  LET calls == SetOf(rec.calls) IN
     {Lbl("C11", "app_logic_on_transit_chain", k[1]) :
        k \in {k \in calls : (k[1] = "recv" /\ k[4] # c) \/ (k[1] = "ack" /\ k[3] # c)}}
\cup (IF e.act = "Recv" /\ okR /\ e.pkt.relay = c /\ e.pkt.dst # c THEN
        LET p == e.pkt  fwd == AuthR(r, p.src, p.dst, p.port) /\ p.dst \in r.cl IN
           If(fwd /\ <<p.src, p.dst, p.seq, CVal(p)>> \notin r2.cm, Lbl("C11", "allowed_packet_not_recommitted", ""))
      \cup If(fwd /\ HasAk(r2, p.src, p.dst, p.seq), Lbl("C11", "forwarded_packet_also_acknowledged", ""))
      \cup If(~fwd /\ HasCm(r2, p.src, p.dst, p.seq), Lbl("C11", "disallowed_packet_recommitted", ""))
      \cup If(~fwd /\ <<p.src, p.dst, p.seq, "unauth">> \notin r2.ak, Lbl("C11", "disallowed_packet_without_error_ack", ""))
      \cup If(rec.app[c] # app[c], Lbl("C11", "token_state_changed_on_relay_chain", ""))
      ELSE {})
\cup \* a relay chain that does not know the destination answers with an error acknowledgement: the message that would have
     \* been accepted had the chain known the destination must not simply fail (the packet could never be settled)
     If(e.act = "Recv" /\ ~okR /\ e.pkt.relay = c /\ e.pkt.dst # c /\ e.pkt.dst \notin r.cl
          /\ RecvResA(c, [r EXCEPT !.cl = @ \cup {e.pkt.dst}], e.pkt, e.proof, "mock").ok,
        Lbl("C11", "relay_without_destination_client_wrote_no_error_ack", ""))
\cup (IF e.act = "Ack" /\ okR /\ e.pkt.relay = c /\ e.pkt.src # c THEN
           If(<<e.pkt.src, e.pkt.dst, e.pkt.seq, e.ack>> \notin r2.ak, Lbl("C11", "ack_not_passed_on_unchanged", ""))
      \cup If(rec.app[c] # app[c], Lbl("C11", "token_state_changed_on_relay_chain", ""))
      ELSE {})
\cup \* the destination processes a relayed packet only after the relay chain accepted and forwarded it
     {Lbl("C11", "destination_saw_packet_the_relay_never_forwarded", "") :
        k \in {k \in calls : k[1] = "recv" /\ k[6] # "" /\ k[6] \in Chains /\ k[6] # c /\
                             ~\E x \in ever[k[6]].cm : x[1] = k[3] /\ x[2] = k[4] /\ x[3] = k[5]}}

\* the detail names what differs from the packet as sent and the role the processing chain has in the packet as presented
\* ("none": the presented packet does not name this chain at all)
RoleOf(c, p) == IF c = p.src THEN "src" ELSE IF c = p.dst THEN "dst" ELSE IF c = p.relay THEN "relay" ELSE "none"
V_C13(e, okR, c, r, r2, rec, st2) ==
  If(e.act \in {"Recv", "Ack"} /\ okR /\ e.pkt \notin sent,
     Lbl("C13", "packet_not_as_sent", e.act \o ":" \o DiffFields(e.pkt) \o "@" \o RoleOf(c, e.pkt)))

V_C14(e, okR, c, r, r2, rec, st2) ==
  LET from == CASE e.act = "Recv" -> RecvFrom(c, e.pkt)
                [] e.act = "Ack" -> AckFrom(c, e.pkt)
                [] e.act = "RecvClean" -> (IF e.cp.dst = c /\ e.cp.relay # "" THEN e.cp.relay ELSE e.cp.src)
                [] OTHER -> ""
  IN If(e.act \in {"Recv", "Ack", "RecvClean"} /\ okR /\ from \in r.ex, Lbl("C14", "accepted_through_expired_client", e.act))

V_C19(e, okR, c, r, r2, rec, st2) ==
     If(~okR /\ ~Unchanged(rec, st2), Lbl("C19", "failed_message_changed_state", e.act))
\cup If(\E x \in Chains \ {c} : st2[x] # cs[x] \/ rec.dig[x] # dig[x] \/ rec.app[x] # app[x],
        Lbl("C19", "step_changed_another_chain", e.act))
\cup \* a packet answered with an error acknowledgement (the application's or the relay chain's refusal): the packet layer
     \* records exactly the receipt and that acknowledgement (and the highest acknowledged sequence that goes with it)
     {Lbl("C19", "error_ack_recorded_more_than_receipt_and_ack", RoleOf(c, e.pkt)) :
        w \in {w \in SetOf(rec.wack) : e.act = "Recv" /\ okR /\ w[4] \in {"unauth", "err"} /\
                  [r2 EXCEPT !.ex = r.ex] #
                  [r EXCEPT !.rc = @ \cup {<<e.pkt.src, e.pkt.dst, e.pkt.seq>>},
                            !.ak = @ \cup {<<e.pkt.src, e.pkt.dst, e.pkt.seq, w[4]>>},
                            !.ma = Set3(@, e.pkt.src, e.pkt.dst, MaxN(MaR(r, e.pkt.src, e.pkt.dst), e.pkt.seq))]}}

\* C16: a chain re-created from its exported genesis has the same state, key by key (the harness lists the classes of
\* keys whose presence or value differs between the original and the re-imported stores)
V_C16(e, rec) == IF e.act = "ExportImport" THEN {Lbl("C16", "state_differs_after_export_import", d) : d \in SetOf(rec.diff)} ELSE {}

Violations(e, okR, rec, st2, pred) ==
  LET c == e.c  r == cs[c]  r2 == st2[c] IN
  V_C16(e, rec) \cup
  V_C01(e, okR, c, r, r2, rec, st2) \cup V_C02(e, okR, c, r, r2, rec, st2, pred) \cup V_C03(e, okR, c, r, r2, rec, st2, pred)
  \cup V_C09(e, okR, c, r, r2, rec, st2) \cup V_C10(e, okR, c, r, r2, rec, st2) \cup V_C11(e, okR, c, r, r2, rec, st2)
  \cup V_C13(e, okR, c, r, r2, rec, st2) \cup V_C14(e, okR, c, r, r2, rec, st2) \cup V_C19(e, okR, c, r, r2, rec, st2)

(* Query layer (modules/tibc/core/keeper/grpc_query.go and the keepers' query servers): what a relayer is told about    *)
(* chain x must be exactly what x has stored.  j = the raw projected record of one chain, r = its converted state.     *)
(* Paginated list queries (page size 2, every page followed) return every stored entry of the channel exactly once;   *)
(* single-key queries agree with them; UnreceivedPackets(S) = the asked sequences without receipt; UnreceivedAcks(S)  *)
(* = the asked sequences whose commitment is still stored; the clean point, client list and routing rules are as      *)
(* stored.  Listed in div (no listed property speaks about queries except C16, which compares them across export).    *)
Pair(x)  == x[1] # x[2] /\ x[1] \in Chains /\ x[2] \in Chains
InK(x, k) == x[3] >= 1 /\ x[3] <= k
QueryLayer(j, r) ==
  LET q == j.q  k == q.k
      Ask == {<<s, d, n>> : s \in Chains, d \in Chains, n \in 1..k} IN
     If(SetOf(q.cm) # {x \in r.cm : Pair(x)} \/ Len(q.cm) # Cardinality(SetOf(q.cm)), "PacketCommitments")
\cup If(SetOf(q.cm1) # {x \in r.cm : Pair(x) /\ InK(x, k)}, "PacketCommitment")
\cup If(SetOf(q.ak) # {x \in r.ak : Pair(x)} \/ Len(q.ak) # Cardinality(SetOf(q.ak)), "PacketAcknowledgements")
\cup If(SetOf(q.ak1) # {x \in r.ak : Pair(x) /\ InK(x, k)}, "PacketAcknowledgement")
\cup If(SetOf(q.rc) # {x \in r.rc : Pair(x) /\ InK(x, k)}, "PacketReceipt")
\cup If(SetOf(q.ur) # {x \in Ask : x[1] # x[2] /\ x \notin r.rc}, "UnreceivedPackets")
\cup If(SetOf(q.ua) # {x \in Ask : x[1] # x[2] /\ HasCm(r, x[1], x[2], x[3])}, "UnreceivedAcks")
\cup If(SetOf(q.cp) # {x \in r.cp : Pair(x)}, "CleanPacketCommitment")
\cup If(SetOf(q.cl) \cap Chains # r.cl, "ClientStates")
\cup If(SetOf(q.rules) # r.rules, "RoutingRules")
\cup If(Len(q.err) # 0, "query_failed")
QueryDiv(rec, st2) == UNION {{[f |-> "query_layer", d |-> n] : n \in QueryLayer(rec.st[x], st2[x])} : x \in Chains}

Divergence(e, okR, rec, st2, pred) ==
  LET c == e.c IN
     QueryDiv(rec, st2) \cup
     If(pred.ok # okR, [f |-> "outcome", d |-> IF pred.ok THEN "spec accepts, code rejects" ELSE "spec rejects, code accepts"])
\cup If(pred.ok = okR /\ pred.r # st2[c], [f |-> "post_state", d |-> e.act])
\cup If(pred.ok = okR /\ okR /\ pred.calls # CallsOf(rec), [f |-> "callbacks", d |-> e.act])
\cup If(\E x \in Chains \ {c} : st2[x] # cs[x], [f |-> "other_chain_changed", d |-> e.act])

TraceStep ==
  /\ l < Len(TraceLog)
  /\ l' = l + 1
  /\ LET rec == TraceLog[l + 1] IN
     IF rec.ev.act = "Reset"
     THEN Fresh(rec) /\ UNCHANGED <<bad, div>> /\ nsteps' = nsteps
     ELSE LET e    == ConvEv(rec.ev)
              okR  == rec.code = 0
              st2  == ConvState(rec.st)
              pred == StepRes(e)
              res  == [ok |-> okR, calls |-> CallsOf(rec)]
          IN /\ cs' = st2
             /\ HistNext(e, res)
             /\ evlog' = evlog
             /\ dig' = rec.dig /\ app' = rec.app
             /\ nsteps' = nsteps + 1
             /\ bad' = bad \cup {[tr |-> rec.tr, i |-> rec.i, v |-> v] : v \in Violations(e, okR, rec, st2, pred)}
             /\ div' = div \cup {[tr |-> rec.tr, i |-> rec.i, v |-> v] : v \in Divergence(e, okR, rec, st2, pred)}

TraceNext == TraceStep
TraceSpec == TraceInit /\ [][TraceNext]_tvars

\* written when the whole trace has been consumed; the driver requires n = number of lines
Done == (l = Len(TraceLog)) => JsonSerialize("result.json", [n |-> l, steps |-> nsteps, bad |-> bad, div |-> div])
=============================================================================
