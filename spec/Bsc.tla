--------------------------------- MODULE Bsc ---------------------------------
(***************************************************************************)
(* BSC (Parlia) light client of tibc-go:                                    *)
(*   modules/tibc/light-clients/08-bsc/types/{header,update,snapshot,       *)
(*   store,bsc,client_state}.go, reached through 02-client UpdateClient.    *)
(*                                                                          *)
(* Property C17.  The client accepts a header iff it is the direct child of *)
(* its latest header, is sealed by a member of the current validator set    *)
(* (size N) who sealed none of the preceding floor(N/2) blocks, carries the *)
(* difficulty of that validator's turn, keeps the gas limits within bounds  *)
(* and lists validators only on epoch blocks.  The set announced at an      *)
(* epoch block takes effect exactly floor(N/2) blocks after it; after       *)
(* acceptance the latest header and the consensus state of that height are  *)
(* the header's.                                                            *)
(*                                                                          *)
(* AcceptStmt is that statement.  Accept / HdrRes is the specification's    *)
(* step function; it follows update.go line by line, and at the places      *)
(* where the code decides differently from the statement a Boolean constant *)
(* F_* selects the statement's behaviour (TRUE, "intended") or the code's   *)
(* (FALSE, "as coded").  tree_flags_bsc.json says which position describes  *)
(* the current tree.                                                        *)
(*                                                                          *)
(* Validators are small integers; their order IS the order of the real      *)
(* addresses (abstract validator i = i-th smallest address the harness      *)
(* generated).  Numbers, times, header ids and root ids are small integers. *)
(*                                                                          *)
(* Client state (record st, exactly what the harness projects):             *)
(*   on     client exists                                                   *)
(*   epoch  ClientState.Epoch                                               *)
(*   num    number of ClientState.Header         hid  id of that header     *)
(*   gl     class of that header's gas limit: "norm" (far from both bounds),*)
(*          "min" (= 5000), "cap" (= 2^63-1)                                *)
(*   vals   ClientState.Validators (set)                                    *)
(*   pend   pendingValidators of the client store (set)                     *)
(*   rec    recentSingers of the client store: {<<number, signer>>}         *)
(*   cons   consensus states: {<<number, root id, time>>}                   *)
(* History (record hs, computed from the accepted events, never logged):    *)
(*   sealed {<<number, signer, N when it was accepted>>} the accepted chain *)
(*   annAt / annOld / annSet  the last accepted epoch block, the set in     *)
(*          force when it was accepted, the set it announced                *)
(*   start  number of the header the client was created with                *)
(***************************************************************************)
EXTENDS Integers, FiniteSets, Sequences, TLC

CONSTANTS MaxV,          \* largest validator set (bounds the history window kept in hs.sealed)
          F_NOWRAP,      \* TRUE: the recency rule also holds while number < floor(N/2)+1 (intended);
                         \* FALSE: as coded - header.go:verifySeal computes number-limit on uint64, the
                         \*        subtraction wraps and the rule is switched off for those blocks
          F_PRUNE_OLD,   \* TRUE: when the validator set shrinks, the entry at number-oldLimit is dropped as well (upstream
                         \*        Parlia prunes it before the check); FALSE: as coded - update.go drops number-newLimit down to
                         \*        number-oldLimit+1 only, the entry at number-oldLimit stays in the store for ever
          F_LENGTHS,     \* TRUE: fixed-size header fields must have their size (intended); FALSE: as coded -
                         \*        Header.ValidateBasic checks no lengths: a sealed header whose logs bloom (or nonce) is one
                         \*        byte too long is accepted, and once it is the latest header Header.Hash() panics in
                         \*        verifyCascadingFields, i.e. every later update fails (st.hid = -2 marks that state)
          F_FULLWINDOW   \* TRUE: recency is decided over the preceding floor(N/2) blocks of the accepted chain
                         \*        (intended); FALSE: as coded - over the entries the store still holds, which
                         \*        are fewer than floor(N/2) for a while after the validator set has grown

VARIABLES st, hs, evlog
vars == <<st, hs, evlog>>

-------------------------------------------------------------------------------
Card(S)  == Cardinality(S)
Half(S)  == Card(S) \div 2
Limit(S) == Half(S) + 1                                   \* len(validators)/2 + 1 of the code
Pos(S, v) == Card({x \in S : x < v})                      \* 0-based position in ascending address order
InTurn(S, n, v)   == S # {} /\ Pos(S, v) = n % Card(S)    \* snapshot.go:inturn: validators()[ (parent+1) % N ]
TurnDiff(S, n, v) == IF InTurn(S, n, v) THEN 2 ELSE 1     \* diffInTurn / diffNoTurn
IsEpoch(s, n)     == n % s.epoch = 0

NoClient == [on |-> FALSE, epoch |-> 1, num |-> 0, hid |-> 0, gl |-> "norm",
             vals |-> {}, pend |-> {}, rec |-> {}, cons |-> {}]
NoHist   == [sealed |-> {}, annAt |-> 0, annOld |-> {}, annSet |-> {}, start |-> 0]

-------------------------------------------------------------------------------
(* Header descriptor (event with act = "Hdr")                                                       *)
(*   id       name of this header (the harness maps its real hash to it)                             *)
(*   num      Number                                                                                 *)
(*   parent   "latest" = ParentHash is the hash of the client's latest header; "grand" = hash of the *)
(*            header before it; "random" = an unknown hash                                           *)
(*   signer   validator whose key seals the header        coinbase  "signer" | "other"               *)
(*   diff     Difficulty (0..3)                                                                      *)
(*   gas      GasLimit relative to the parent's P, with b = P div 256:                               *)
(*            same P | up_edge P+b-1 | down_edge P-b+1 | up_over P+b | down_over P-b |               *)
(*            inside (anything else strictly within the bounds; recorded headers only) |             *)
(*            below_min 4999 | above_cap 2^63                                                        *)
(*   used     GasUsed: "ok" (<= GasLimit) | "over" (GasLimit+1)                                      *)
(*   time     Time (offset), root  state root id                                                     *)
(*   ext      [vals |-> validator set listed in Extra between vanity and seal ({} = nothing),        *)
(*             mal |-> TRUE: 7 stray bytes follow the list]                                          *)
(*   wf       "ok" | "nonce" (non-zero nonce) | "sealBytes" (one byte of the seal flipped) |         *)
(*            "mixDigest" | "uncleHash" | "extraShort" (Extra of 96 bytes) | "noVanity" (20 bytes) | *)
(*            "bloomLong" (257-byte logs bloom) | "nonceLong" (9-byte nonce)                         *)
(*   tag      what the generator altered (fingerprints only; never read by a decision)               *)

\* gas classes the generator may use in a state with gas level gl (the decision is defined on these)
GasAlphabet(gl) == CASE gl = "norm" -> {"same", "inside", "up_edge", "down_edge", "up_over", "down_over", "below_min", "above_cap"}
                     [] gl = "min"  -> {"same", "up_over", "down_over", "below_min"}
                     [] gl = "cap"  -> {"same", "up_over", "down_over", "above_cap"}

\* |GasLimit - P| < P div 256,  5000 <= GasLimit <= 2^63-1,  GasUsed <= GasLimit
GasOk(s, h) == /\ h.used = "ok"
               /\ IF s.gl = "norm" THEN h.gas \in {"same", "inside", "up_edge", "down_edge"} ELSE h.gas = "same"

\* well-formed Parlia header: 32-byte vanity and 65-byte seal present, zero mix digest, empty uncle hash,
\* validator bytes a multiple of 20.  The nonce is not constrained (neither by Parlia nor by the client).
WellFormed(h) == h.wf \in {"ok", "nonce"} /\ ~h.ext.mal
TooLong == {"bloomLong", "nonceLong"}
WellFormedTree(h) == (h.wf \in {"ok", "nonce"} \/ (~F_LENGTHS /\ h.wf \in TooLong)) /\ ~h.ext.mal
Hashable(s) == s.hid # -2
Lists(h) == h.ext.vals # {} \/ h.ext.mal

\* "sealed none of the preceding floor(N/2) blocks", on the accepted chain
RecentStmt(h_, S, n, v) == \E x \in h_.sealed : x[2] = v /\ x[1] < n /\ x[1] >= n - Half(S)
\* header.go:verifySeal over snap.Recents: seen > number - limit
RecentKept(s, S, n, v)  == \E x \in s.rec : x[2] = v /\ x[1] > n - Limit(S)
Recent(s, h_, S, n, v) ==
  LET wrapOff == ~F_NOWRAP /\ n < Limit(S) IN
  ~wrapOff /\ (IF F_FULLWINDOW THEN RecentStmt(h_, S, n, v) ELSE RecentKept(s, S, n, v))

(* The property's decision. *)
AcceptStmt(s, h_, h) ==
  /\ s.on
  /\ WellFormed(h)
  /\ h.num = s.num + 1 /\ h.parent = "latest"                       \* direct child of the latest header
  /\ h.coinbase = "signer" /\ h.signer \in s.vals                   \* sealed by its miner, a current validator
  /\ ~RecentStmt(h_, s.vals, h.num, h.signer)                       \* who sealed none of the preceding N/2 blocks
  /\ h.diff = TurnDiff(s.vals, h.num, h.signer)                     \* difficulty of that validator's turn
  /\ GasOk(s, h)                                                    \* gas limits within bounds
  /\ (Lists(h) => IsEpoch(s, h.num))                                \* validators only on epoch blocks

\* why AcceptStmt is false (first failing conjunct) - detail of a finding
WhyNot(s, h_, h) ==
  IF ~s.on THEN "no_client"
  ELSE IF h.wf \notin {"ok", "nonce"} THEN "malformed:" \o h.wf
  ELSE IF h.ext.mal THEN "malformed_validator_bytes"
  ELSE IF h.num # s.num + 1 THEN "not_direct_child:number"
  ELSE IF h.parent # "latest" THEN "not_direct_child:parent_" \o h.parent
  ELSE IF h.coinbase # "signer" THEN "coinbase_not_sealer"
  ELSE IF h.signer \notin s.vals THEN "sealer_not_validator"
  ELSE IF RecentStmt(h_, s.vals, h.num, h.signer) THEN
         (IF h.num < Limit(s.vals) THEN "sealer_recent:number_below_window"
          ELSE IF ~RecentKept(s, s.vals, h.num, h.signer) THEN "sealer_recent:older_than_kept_entries"
          ELSE "sealer_recent")
  ELSE IF h.diff # TurnDiff(s.vals, h.num, h.signer) THEN
         (IF h.diff = 0 THEN "difficulty:zero" ELSE IF h.diff > 2 THEN "difficulty:other"
          ELSE IF h.diff = 2 THEN "difficulty:inturn_claimed" ELSE "difficulty:noturn_claimed")
  ELSE IF h.used # "ok" THEN "gas_used_over_limit"
  ELSE IF ~GasOk(s, h) THEN "gas_limit:" \o h.gas
  ELSE IF Lists(h) /\ ~IsEpoch(s, h.num) THEN "validators_on_non_epoch"
  ELSE "none"

(* The specification's decision: the statement, except where a flag says the tree does otherwise. *)
Accept(s, h_, h) ==
  /\ s.on
  /\ WellFormedTree(h)                                              \* Header.ValidateBasic, verifyHeader
  /\ (Lists(h) => IsEpoch(s, h.num))                                \* verifyHeader
  /\ Hashable(s)                                                    \* verifyCascadingFields: parent.Hash()
  /\ h.num = s.num + 1 /\ h.parent = "latest"
  /\ GasOk(s, h)                                                    \* verifyCascadingFields
  /\ h.coinbase = "signer" /\ h.signer \in s.vals                   \* verifySeal
  /\ ~Recent(s, h_, s.vals, h.num, h.signer)
  /\ h.diff = TurnDiff(s.vals, h.num, h.signer)

(* update.go:update - the state after an accepted header *)
After(s, h) ==
  LET n      == h.num
      pend2  == IF IsEpoch(s, n) THEN h.ext.vals ELSE s.pend       \* SetPendingValidators on epoch blocks
      switch == n % s.epoch = Half(s.vals)                          \* number%Epoch == len(Validators)/2
      vals2  == IF switch THEN pend2 ELSE s.vals
      oldL   == Limit(s.vals)
      newL   == Limit(vals2)
      rec0   == IF F_PRUNE_OLD /\ switch /\ newL < oldL THEN {x \in s.rec : x[1] # n - oldL} ELSE s.rec
      rec1   == {x \in rec0 : x[1] # n} \cup {<<n, h.signer>>}      \* SetSigner (verifySeal)
      rec2   == IF switch /\ newL < oldL                            \* shrink: drop n-newL .. n-oldL+1
                THEN {x \in rec1 : ~(x[1] <= n - newL /\ x[1] > n - oldL)} ELSE rec1
      rec3   == IF n >= newL THEN {x \in rec2 : x[1] # n - newL} ELSE rec2
  IN [s EXCEPT !.num = n, !.hid = IF h.wf \in TooLong THEN -2 ELSE h.id, !.vals = vals2, !.pend = pend2, !.rec = rec3,
               !.cons = {x \in s.cons : x[1] # n} \cup {<<n, h.root, h.time>>}]

HdrRes(s, h_, h) == IF Accept(s, h_, h) THEN [ok |-> TRUE, st |-> After(s, h)] ELSE [ok |-> FALSE, st |-> s]

(* Client creation (act = "Init"): ClientState{Header, Epoch, Validators, RecentSigners}; Initialize reads *)
(* the pending set from the header's Extra and requires an epoch block.                                  *)
InitRes(s, e) ==
  IF ~s.on /\ e.epoch > 0 /\ e.num % e.epoch = 0
  THEN [ok |-> TRUE, st |-> [on |-> TRUE, epoch |-> e.epoch, num |-> e.num, hid |-> e.id, gl |-> e.gl,
                             vals |-> e.vals, pend |-> e.pend, rec |-> e.rec,
                             cons |-> {<<e.num, e.root, e.time>>}]]
  ELSE [ok |-> FALSE, st |-> s]

\* act = "Export": genesis export and re-import of the chain that holds the client (C16): the client is what it was
StepRes(s, h_, e) == IF e.act = "Init" THEN InitRes(s, e)
                     ELSE IF e.act = "Export" THEN [ok |-> TRUE, st |-> s]
                     ELSE HdrRes(s, h_, e)

(* History after a step that was accepted (by the model in TLC's runs, by the real code in traces). *)
HistAfter(s, h_, e, ok) ==
  IF ~ok \/ e.act = "Export" THEN h_
  ELSE IF e.act = "Init"
  THEN [sealed |-> {<<x[1], x[2], Card(e.vals)>> : x \in e.rec}, annAt |-> e.num, annOld |-> e.vals,
        annSet |-> e.pend, start |-> e.num]
  ELSE LET n == e.num
           kept == {x \in h_.sealed \cup {<<n, e.signer, Card(s.vals)>>} : x[1] > n - (MaxV \div 2) - 2}
       IN IF IsEpoch(s, n)
          THEN [h_ EXCEPT !.sealed = kept, !.annAt = n, !.annOld = s.vals, !.annSet = e.ext.vals]
          ELSE [h_ EXCEPT !.sealed = kept]

Do(e) == LET r == StepRes(st, hs, e) IN st' = r.st /\ hs' = HistAfter(st, hs, e, r.ok)

-------------------------------------------------------------------------------
(* Formulas about a state and its history (invariants of the intended model; the trace specification  *)
(* evaluates the same ones on the states recorded from the real client).                               *)

\* the announced set is in force from exactly floor(N/2) blocks after the epoch block, the old one until then
SwitchDue(h_)   == h_.annAt + Half(h_.annOld)
ValsAsAnnounced(s, h_) == s.vals = (IF s.num >= SwitchDue(h_) THEN h_.annSet ELSE h_.annOld)

\* nobody seals twice within floor(N/2)+1 consecutive accepted blocks
NoDoubleSeal(h_) == \A x, y \in h_.sealed : (x[2] = y[2] /\ x[1] < y[1]) => y[1] - x[1] > y[3] \div 2

\* the store holds no entry outside the newest floor(N/2)+1 blocks
RecWithinWindow(s) == \A x \in s.rec : x[1] <= s.num /\ x[1] > s.num - Limit(s.vals)

ConsAt(s, n) == {x \in s.cons : x[1] = n}
=============================================================================
