package harness

import (
	"bufio"
	"encoding/json"
	"os"
	"testing"
)

// TestRun executes the behaviours of $VERIF_IN and writes the NDJSON trace to $VERIF_OUT.
func TestRun(t *testing.T) {
	in := os.Getenv("VERIF_IN")
	out := os.Getenv("VERIF_OUT")
	if in == "" || out == "" {
		t.Skip("VERIF_IN / VERIF_OUT not set")
	}
	bz, err := os.ReadFile(in)
	if err != nil {
		t.Fatal(err)
	}
	var inp Input
	if err := json.Unmarshal(bz, &inp); err != nil {
		t.Fatal(err)
	}
	run, ok := Families[inp.Family]
	if !ok {
		t.Fatalf("unknown family %q", inp.Family)
	}
	f, err := os.Create(out)
	if err != nil {
		t.Fatal(err)
	}
	defer f.Close()
	w := bufio.NewWriterSize(f, 1<<20)
	defer w.Flush()
	enc := json.NewEncoder(w)
	emit := func(rec interface{}) {
		if err := enc.Encode(rec); err != nil {
			t.Fatal(err)
		}
	}
	for bi, beh := range inp.Behaviours {
		run(t, &inp, inp.First+bi, beh, emit)
	}
}
