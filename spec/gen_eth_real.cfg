\* behaviour generation with recorded mainnet headers under the real ethash check (thorough tier)
CONSTANTS
  F_RESTRICT = TRUE
  MaxId = 14
  MaxNum = 4
  Now0 = 100
  MaxNow = 100000
  Dts = {1, 2, 8, 9, 10, 17, 18, 40}
  Ticks = {3, 16, 60}
  GLs = {"same", "up_1", "down_1", "up_max", "down_max"}
  GUs = {"target", "full", "empty", "above", "below"}
  Uncs = {0, 0, 1}
  PertOn = TRUE
  RealN = 5
  RealBudget = 8
  RealTimes <- RealTimes9
  Tree <- NoTree
  LOG = TRUE
  SimDepth = 40
INIT Init
NEXT NextSim
INVARIANT PrintBehaviour
CHECK_DEADLOCK FALSE
