package harness

// ETH light client family (property C18).  Executes behaviours of spec/EthMC.tla on the real 09-eth
// client living in a real simapp chain: every Submit is a signed MsgUpdateClient delivered in its own
// block whose time is the abstract clock of the behaviour.  The file contains NO acceptance rule: it
// builds concrete headers from abstract descriptions, calls the real code and logs what the store holds.
//
// The EIP arithmetic below (eipBaseFee, eipDifficulty, gas-limit bound) is an independent
// re-implementation from the EIP texts that is used ONLY to construct inputs ("a child whose base fee is
// the prescribed one / off by one"); it is cross-checked in every run against the recorded mainnet
// header pairs of the repository's testdata.

import (
	"crypto/sha256"
	"encoding/hex"
	"encoding/json"
	"fmt"
	"math/big"
	"os"
	"path/filepath"
	"sort"
	"strconv"
	"testing"
	"time"

	storetypes "cosmossdk.io/store/types"

	clienttypes "github.com/bianjieai/tibc-go/modules/tibc/core/02-client/types"
	host "github.com/bianjieai/tibc-go/modules/tibc/core/24-host"
	ethtypes "github.com/bianjieai/tibc-go/modules/tibc/light-clients/09-eth/types"
)

const (
	ethClientName = "ethmainnet"
	// 3.2e9 s (a century): the client never prunes a consensus state and never expires in a behaviour,
	// so pruning cannot interfere with the property
	ethTrustingPeriod = uint64(3200000000)
	emptyUncleHashHex = "1dcc4de8dec75d7aab85b567b6ccd41ad312451b948a7413f0a142fd40d49347" // keccak256(rlp([]))
	emptyRootHex      = "56e81f171bcc55a6ff8345e692c0f86e5b48e01b996cadc001622fb5e363b421" // empty trie root
	unknownId         = 99
)

// EthHdr is the abstract header of Eth.tla.
type EthHdr struct {
	Parent int    `json:"parent"`
	Num    int64  `json:"num"`
	Time   int64  `json:"time"`
	Gl     string `json:"gl"`
	Gu     string `json:"gu"`
	Bf     string `json:"bf"`
	Df     string `json:"df"`
	Unc    int    `json:"unc"`
	Pow    string `json:"pow"`
	Src    string `json:"src"`
	K      int    `json:"k"`
	Tag    string `json:"tag"`
}

// EthEvent is one abstract step of a behaviour.
type EthEvent struct {
	Act  string  `json:"act"`
	Id   int     `json:"id"`
	Hdr  *EthHdr `json:"hdr,omitempty"`
	Tag  string  `json:"tag,omitempty"`
	D    int64   `json:"d,omitempty"`
	Slow int     `json:"slow,omitempty"`
}

// EthState is the projection of the real client store onto the variables of Eth.tla.
type EthState struct {
	Index  [][]int64 `json:"index"`  // [id, number-root] for every stored header (ethHeaderIndex/<hash><height>)
	Cons   [][]int64 `json:"cons"`   // [number-root, id (by state root), timestamp-root time, Number field-root, revision] per consensus state
	Head   int64     `json:"head"`   // id of the client state's header
	Latest int64     `json:"latest"` // GetLatestHeight - root number
	Rm     [][]int64 `json:"rm"`     // [id (by root), id (by the header-index key it points to)] for every ethRootMain entry
	Now    int64     `json:"now"`    // abstract clock: block time of the next transaction - root timestamp
	Status string    `json:"status"`
}

// EthRec is one NDJSON line.
type EthRec struct {
	Tr   int                    `json:"tr"`
	I    int                    `json:"i"`
	Ev   json.RawMessage        `json:"ev"`
	Code uint32                 `json:"code"`
	Log  string                 `json:"log"`
	St   EthState               `json:"st"`
	Cdig string                 `json:"cdig"` // digest of the whole client sub-store of the chain (determinism, C20)
	Info map[string]interface{} `json:"info"`
}

type ethRunner struct {
	t       *testing.T
	n       *Net
	tr, i   int
	out     func(interface{})
	rec     []*ethtypes.Header // recorded mainnet headers, rec[0] = root
	rootNum uint64
	t0      int64
	now     int64
	hdrs    map[int]*ethtypes.Header // id -> concrete header
	byHash  map[string]int           // 0x-hex hash -> id
	byRoot  map[string][]int         // hex state root -> ids
	pows    map[int]string           // id -> pow class (decides whether the verif hook is on for a submission)
}

// ---------------------------------------------------------------------------------------------------
// input construction: EIP arithmetic, written from the EIP texts

// EIP-1559: base fee of the child of a block with the given gas limit, gas used and base fee.
func eipBaseFee(parentGasLimit, parentGasUsed uint64, parentBaseFee *big.Int) *big.Int {
	target := parentGasLimit / 2 // ELASTICITY_MULTIPLIER = 2
	if parentGasUsed == target {
		return new(big.Int).Set(parentBaseFee)
	}
	if parentGasUsed > target {
		d := new(big.Int).Mul(parentBaseFee, new(big.Int).SetUint64(parentGasUsed-target))
		d.Div(d, new(big.Int).SetUint64(target))
		d.Div(d, big.NewInt(8)) // BASE_FEE_MAX_CHANGE_DENOMINATOR
		if d.Sign() == 0 {
			d.SetInt64(1)
		}
		return d.Add(d, parentBaseFee)
	}
	d := new(big.Int).Mul(parentBaseFee, new(big.Int).SetUint64(target-parentGasUsed))
	d.Div(d, new(big.Int).SetUint64(target))
	d.Div(d, big.NewInt(8))
	return d.Sub(parentBaseFee, d)
}

func floorDiv(a, b int64) int64 {
	q := a / b
	if (a%b != 0) && ((a < 0) != (b < 0)) {
		q--
	}
	return q
}

// EIP-100 difficulty adjustment with the difficulty bomb delayed by 9 700 000 blocks (EIP-3554, London).
func eipDifficulty(parentDiff *big.Int, parentTime, childTime int64, parentHasUncles bool, childNumber uint64) *big.Int {
	adj := int64(1)
	if parentHasUncles {
		adj = 2
	}
	adj -= floorDiv(childTime-parentTime, 9)
	if adj < -99 {
		adj = -99
	}
	d := new(big.Int).Div(parentDiff, big.NewInt(2048))
	d.Mul(d, big.NewInt(adj))
	d.Add(d, parentDiff)
	floor := big.NewInt(131072)
	if parentDiff.Cmp(floor) < 0 {
		floor = new(big.Int).Set(parentDiff)
	}
	if d.Cmp(floor) < 0 {
		d.Set(floor)
	}
	fake := uint64(0)
	if childNumber > 9700000 {
		fake = childNumber - 9700000
	}
	if period := fake / 100000; period >= 2 {
		d.Add(d, new(big.Int).Lsh(big.NewInt(1), uint(period-2)))
	}
	return d
}

func bigOf(s string) *big.Int {
	b, ok := new(big.Int).SetString(s, 10)
	if !ok {
		panic("not a decimal number: " + s)
	}
	return b
}

func hasUncles(h *ethtypes.Header) bool { return hex.EncodeToString(h.UncleHash) != emptyUncleHashHex }

func mustHex(s string) []byte {
	b, err := hex.DecodeString(s)
	if err != nil {
		panic(err)
	}
	return b
}

// crossCheck: the recorded mainnet parent -> child pairs must reproduce the recorded difficulty and base
// fee and lie inside the gas-limit bound, otherwise the input construction is wrong and the run is void.
func (r *ethRunner) crossCheck() int {
	for i := 1; i < len(r.rec); i++ {
		p, c := r.rec[i-1], r.rec[i]
		if d := eipDifficulty(bigOf(p.Difficulty), int64(p.Time), int64(c.Time), hasUncles(p), c.Height.RevisionHeight); d.String() != c.Difficulty {
			r.t.Fatalf("EIP-100 re-implementation disagrees with mainnet header %d: %s != %s", c.Height.RevisionHeight, d, c.Difficulty)
		}
		if b := eipBaseFee(p.GasLimit, p.GasUsed, bigOf(p.BaseFee)); b.String() != c.BaseFee {
			r.t.Fatalf("EIP-1559 re-implementation disagrees with mainnet header %d: %s != %s", c.Height.RevisionHeight, b, c.BaseFee)
		}
		bound := p.GasLimit / 1024
		if !(c.GasLimit < p.GasLimit+bound && c.GasLimit > p.GasLimit-bound && c.GasLimit >= 5000 && c.GasUsed <= c.GasLimit) {
			r.t.Fatalf("gas-limit bound disagrees with mainnet header %d", c.Height.RevisionHeight)
		}
		if string(c.ParentHash) != string(p.Hash().Bytes()) {
			r.t.Fatalf("recorded header %d is not the child of the previous one", c.Height.RevisionHeight)
		}
	}
	return len(r.rec) - 1
}

func loadRecorded(t *testing.T) []*ethtypes.Header {
	repo := os.Getenv("VERIF_REPO")
	if repo == "" {
		repo = "/repo"
	}
	bz, err := os.ReadFile(filepath.Join(repo, "modules/tibc/light-clients/09-eth/types/testdata/update_headers.json"))
	if err != nil {
		t.Fatalf("recorded mainnet headers: %v", err)
	}
	var hs []*ethtypes.EthHeader
	if err := json.Unmarshal(bz, &hs); err != nil {
		t.Fatalf("recorded mainnet headers: %v", err)
	}
	out := []*ethtypes.Header{}
	for _, h := range hs {
		p := h.ToHeader()
		out = append(out, &p)
	}
	if len(out) < 6 {
		t.Fatalf("expected at least 6 recorded headers, got %d", len(out))
	}
	return out
}

func (r *ethRunner) register(id int, h *ethtypes.Header) {
	r.hdrs[id] = h
	r.byHash[h.Hash().Hex()] = id
	k := hex.EncodeToString(h.Root)
	r.byRoot[k] = append(r.byRoot[k], id)
}

// build concretises abstract header x with identity id.
func (r *ethRunner) build(id int, x *EthHdr) *ethtypes.Header {
	if x.Src == "real" {
		if x.K < 1 || x.K >= len(r.rec) {
			r.t.Fatalf("no recorded header %d", x.K)
		}
		c := *r.rec[x.K]
		if int64(c.Time)-r.t0 != x.Time || int64(c.Height.RevisionHeight-r.rootNum) != x.Num {
			r.t.Fatalf("model constants disagree with recorded header %d: time %d num %d", x.K, int64(c.Time)-r.t0, c.Height.RevisionHeight-r.rootNum)
		}
		if p, ok := r.hdrs[x.Parent]; !ok || string(p.Hash().Bytes()) != string(c.ParentHash) {
			r.t.Fatalf("recorded header %d built on something that is not its recorded parent (id %d)", x.K, x.Parent)
		}
		switch x.Pow {
		case "mined":
		case "badnonce":
			c.Nonce ^= 1
		case "badmix":
			c.MixDigest = append([]byte{}, c.MixDigest...)
			c.MixDigest[7] ^= 0x10
		default:
			r.t.Fatalf("bad pow %q for a recorded header", x.Pow)
		}
		return &c
	}
	var parentHash []byte
	p, ok := r.hdrs[x.Parent]
	if ok {
		parentHash = p.Hash().Bytes()
	} else if x.Parent == unknownId {
		s := sha256.Sum256([]byte(fmt.Sprintf("verif-eth-unknown-parent-of-%d", id)))
		parentHash = s[:]
		p = r.rec[0] // the prescribed values need some parent; the header is an orphan whatever they are
	} else {
		r.t.Fatalf("header %d built on header %d, which was never built", id, x.Parent)
	}
	bound := p.GasLimit / 1024
	var gl uint64
	switch x.Gl {
	case "same":
		gl = p.GasLimit
	case "up_1":
		gl = p.GasLimit + 1
	case "down_1":
		gl = p.GasLimit - 1
	case "up_max":
		gl = p.GasLimit + bound - 1
	case "down_max":
		gl = p.GasLimit - bound + 1
	case "up_over":
		gl = p.GasLimit + bound
	case "down_over":
		gl = p.GasLimit - bound
	default:
		r.t.Fatalf("bad gas limit class %q", x.Gl)
	}
	var gu uint64
	switch x.Gu {
	case "target":
		gu = gl / 2
	case "full":
		gu = gl
	case "empty":
		gu = 0
	case "above":
		gu = gl/2 + gl/7
	case "below":
		gu = gl/2 - gl/5
	case "over":
		gu = gl + 1
	default:
		r.t.Fatalf("bad gas used class %q", x.Gu)
	}
	bf := eipBaseFee(p.GasLimit, p.GasUsed, bigOf(p.BaseFee))
	switch x.Bf {
	case "ok":
	case "plus1":
		bf.Add(bf, big.NewInt(1))
	case "minus1":
		bf.Sub(bf, big.NewInt(1))
	default:
		r.t.Fatalf("bad base fee class %q", x.Bf)
	}
	number := r.rootNum + uint64(x.Num)
	tm := r.t0 + x.Time
	df := eipDifficulty(bigOf(p.Difficulty), int64(p.Time), tm, hasUncles(p), p.Height.RevisionHeight+1)
	switch x.Df {
	case "ok":
	case "plus1":
		df.Add(df, big.NewInt(1))
	case "minus1":
		df.Sub(df, big.NewInt(1))
	case "zero":
		df.SetInt64(0)
	default:
		r.t.Fatalf("bad difficulty class %q", x.Df)
	}
	if x.Pow != "hooked" && x.Pow != "unmined" {
		r.t.Fatalf("bad pow %q for a synthetic header", x.Pow)
	}
	root := sha256.Sum256([]byte(fmt.Sprintf("verif-eth-state-root-%d", id)))
	uncle := mustHex(emptyUncleHashHex)
	if x.Unc != 0 {
		u := sha256.Sum256([]byte(fmt.Sprintf("verif-eth-uncles-%d", id)))
		uncle = u[:]
	}
	coin := sha256.Sum256([]byte("verif-eth-miner"))
	return &ethtypes.Header{
		ParentHash:  parentHash,
		UncleHash:   uncle,
		Coinbase:    coin[:20],
		Root:        root[:],
		TxHash:      mustHex(emptyRootHex),
		ReceiptHash: mustHex(emptyRootHex),
		Bloom:       make([]byte, 256),
		Difficulty:  df.String(),
		Height:      clienttypes.NewHeight(0, number),
		GasLimit:    gl,
		GasUsed:     gu,
		Time:        uint64(tm),
		Extra:       []byte(fmt.Sprintf("verif-%d", id)),
		MixDigest:   make([]byte, 32),
		Nonce:       0,
		BaseFee:     bf.String(),
	}
}

// ---------------------------------------------------------------------------------------------------
// projection of the real store

func (r *ethRunner) idOfHash(h string) int64 {
	if id, ok := r.byHash[h]; ok {
		return int64(id)
	}
	return 900
}

// idOfRoot resolves a state root to a header id; among several headers with the same root (a recorded
// header and its copy with a spoilt seal) the one stored at that height is chosen.
func (r *ethRunner) idOfRoot(store storetypes.KVStore, rootHex string, height uint64) int64 {
	ids := r.byRoot[rootHex]
	if len(ids) == 0 {
		return 900
	}
	for _, id := range ids {
		h := r.hdrs[id]
		if h.Height.RevisionHeight == height && store.Has(ethtypes.EthHeaderIndexKey(h.Hash(), height)) {
			return int64(id)
		}
	}
	return int64(ids[0])
}

func splitHashHeight(rest string) (string, uint64, bool) {
	if len(rest) < 67 {
		return "", 0, false
	}
	n, err := strconv.ParseUint(rest[66:], 10, 64)
	return rest[:66], n, err == nil
}

func (r *ethRunner) project() EthState {
	c := r.n.Chains["A"]
	ctx := c.GetContext()
	ck := c.App.TIBCKeeper.ClientKeeper
	store := ck.ClientStore(ctx, ethClientName)
	st := EthState{Index: [][]int64{}, Cons: [][]int64{}, Rm: [][]int64{}, Head: 900, Now: r.now}
	pfx := ethtypes.KeyIndexEthHeaderPrefix + "/"
	it := storetypes.KVStorePrefixIterator(store, []byte(pfx))
	for ; it.Valid(); it.Next() {
		hash, height, ok := splitHashHeight(string(it.Key())[len(pfx):])
		if !ok {
			st.Index = append(st.Index, []int64{901, 0})
			continue
		}
		st.Index = append(st.Index, []int64{r.idOfHash(hash), int64(height) - int64(r.rootNum)})
	}
	it.Close()
	pfx = host.KeyConsensusStatePrefix + "/"
	it = storetypes.KVStorePrefixIterator(store, []byte(pfx))
	for ; it.Valid(); it.Next() {
		k := it.Key()[len(pfx):]
		if len(k) != 16 {
			st.Cons = append(st.Cons, []int64{0, 901, 0, 0, 0})
			continue
		}
		hgt := clienttypes.NewHeight(bigEndian(k[:8]), bigEndian(k[8:]))
		csI, err := clienttypes.UnmarshalConsensusState(c.App.AppCodec(), it.Value())
		if err != nil {
			st.Cons = append(st.Cons, []int64{int64(hgt.RevisionHeight) - int64(r.rootNum), 902, 0, 0, int64(hgt.RevisionNumber)})
			continue
		}
		cs, ok := csI.(*ethtypes.ConsensusState)
		if !ok {
			st.Cons = append(st.Cons, []int64{int64(hgt.RevisionHeight) - int64(r.rootNum), 903, 0, 0, int64(hgt.RevisionNumber)})
			continue
		}
		st.Cons = append(st.Cons, []int64{int64(hgt.RevisionHeight) - int64(r.rootNum),
			r.idOfRoot(store, hex.EncodeToString(cs.Root), hgt.RevisionHeight),
			int64(cs.Timestamp) - r.t0, int64(cs.Number.RevisionHeight) - int64(r.rootNum), int64(hgt.RevisionNumber)})
	}
	it.Close()
	pfx = ethtypes.KeyMainRootPrefix + "/"
	it = storetypes.KVStorePrefixIterator(store, []byte(pfx))
	for ; it.Valid(); it.Next() {
		root, height, ok := splitHashHeight(string(it.Key())[len(pfx):])
		ipfx := ethtypes.KeyIndexEthHeaderPrefix + "/"
		v := string(it.Value())
		if !ok || len(v) < len(ipfx) {
			st.Rm = append(st.Rm, []int64{901, 901})
			continue
		}
		hash, _, ok2 := splitHashHeight(v[len(ipfx):])
		if !ok2 {
			st.Rm = append(st.Rm, []int64{r.idOfRoot(store, root[2:], height), 901})
			continue
		}
		st.Rm = append(st.Rm, []int64{r.idOfRoot(store, root[2:], height), r.idOfHash(hash)})
	}
	it.Close()
	sortRows(st.Index)
	sortRows(st.Cons)
	sortRows(st.Rm)
	if csI, found := ck.GetClientState(ctx, ethClientName); found {
		if cs, ok := csI.(*ethtypes.ClientState); ok {
			hd := cs.Header
			st.Head = r.idOfHash(hd.Hash().Hex())
			st.Latest = int64(cs.GetLatestHeight().GetRevisionHeight()) - int64(r.rootNum)
			st.Status = string(cs.Status(ctx.WithBlockTime(time.Unix(r.t0+r.now, 0).UTC()), store, c.App.AppCodec()))
		}
	}
	return st
}

func bigEndian(b []byte) uint64 {
	var v uint64
	for _, x := range b {
		v = v<<8 | uint64(x)
	}
	return v
}

func sortRows(rows [][]int64) {
	sort.Slice(rows, func(i, j int) bool {
		for k := range rows[i] {
			if rows[i][k] != rows[j][k] {
				return rows[i][k] < rows[j][k]
			}
		}
		return false
	})
}

// ---------------------------------------------------------------------------------------------------

func (r *ethRunner) emit(raw json.RawMessage, code uint32, log string, info map[string]interface{}) {
	if len(log) > 400 {
		log = log[:400]
	}
	if info == nil {
		info = map[string]interface{}{"none": 0}
	}
	r.out(&EthRec{Tr: r.tr, I: r.i, Ev: raw, Code: code, Log: log, St: r.project(), Cdig: r.n.ClientDigest("A"), Info: info})
	r.i++
}

func (r *ethRunner) setup() {
	c := r.n.Chains["A"]
	root := r.rec[0]
	r.rootNum = root.Height.RevisionHeight
	r.t0 = int64(root.Time)
	r.register(0, root)
	ctx := c.GetContext()
	ck := c.App.TIBCKeeper.ClientKeeper
	ck.RegisterRelayers(ctx, ethClientName, []string{c.SenderAccount.GetAddress().String()})
	clientState := &ethtypes.ClientState{
		Header:          *root,
		ChainId:         1,
		ContractAddress: []byte("0x00"),
		TrustingPeriod:  ethTrustingPeriod,
		TimeDelay:       0,
		BlockDelay:      1,
	}
	consState := &ethtypes.ConsensusState{Timestamp: root.Time, Number: root.Height, Root: root.Root}
	if err := ck.CreateClient(ctx, ethClientName, clientState, consState); err != nil {
		r.t.Fatalf("create eth client: %v", err)
	}
	r.n.Coord.CommitBlock(c)
}

func (r *ethRunner) submit(raw json.RawMessage, ev *EthEvent) {
	h, ok := r.hdrs[ev.Id]
	if !ok {
		r.t.Fatalf("submit of header %d, which was never built", ev.Id)
	}
	c := r.n.Chains["A"]
	cp := *h
	msg, err := clienttypes.NewMsgUpdateClient(ethClientName, &cp, c.SenderAccount.GetAddress())
	if err != nil {
		r.t.Fatalf("MsgUpdateClient: %v", err)
	}
	// a transaction refused before the ante handler (ValidateBasic) does not consume a sequence number, while
	// SendMsgs always advances the local one: take the signer's sequence from the chain
	acc := c.SenderAccounts[0].SenderAccount
	if onChain := c.App.AccountKeeper.GetAccount(c.GetContext(), acc.GetAddress()); onChain != nil {
		if err := acc.SetSequence(onChain.GetSequence()); err != nil {
			r.t.Fatalf("sequence: %v", err)
		}
	}
	// the block that carries the transaction has time root timestamp + now
	r.n.Coord.CurrentTime = time.Unix(r.t0+r.now, 0).UTC()
	hook := r.pow(ev.Id) == "hooked"
	ethtypes.VerifSkipSeal = hook
	t1 := time.Now()
	res := r.n.Deliver("A", 0, msg)
	ms := time.Since(t1).Milliseconds()
	ethtypes.VerifSkipSeal = false
	if res.Codespace == "sdk" && (res.Code == 32 || res.Code == 4 || res.Code == 11 || res.Code == 13 || res.Code == 5 || res.Code == 2) {
		// refused by the transaction machinery (sequence, signature, gas, fee), not by the client: the run says nothing
		r.t.Fatalf("transaction of header %d did not reach the client: %s/%d %s", ev.Id, res.Codespace, res.Code, res.Log)
	}
	bt := c.LastHeader.GetTime().Unix() - r.t0
	r.emit(raw, res.Code, res.Log, map[string]interface{}{
		"hash": h.Hash().Hex()[:12], "hook": hook, "bt": bt, "slow": ms >= 1000, "codespace": res.Codespace,
		"difficulty": h.Difficulty, "basefee": h.BaseFee, "gaslimit": strconv.FormatUint(h.GasLimit, 10), "gasused": strconv.FormatUint(h.GasUsed, 10)})
}

func (r *ethRunner) pow(id int) string { return r.pows[id] }

func runEth(t *testing.T, inp *Input, tr int, beh []json.RawMessage, out func(interface{})) {
	nt := NewNet(t, 1, nil)
	r := &ethRunner{t: t, n: nt, tr: tr, out: out, rec: loadRecorded(t), hdrs: map[int]*ethtypes.Header{},
		byHash: map[string]int{}, byRoot: map[string][]int{}, pows: map[int]string{0: "mined"}}
	pairs := r.crossCheck()
	r.setup()
	r.emit(json.RawMessage(`{"act":"Reset"}`), 0, "", map[string]interface{}{"xcheck_pairs": pairs})
	for _, raw := range beh {
		var ev EthEvent
		if err := json.Unmarshal(raw, &ev); err != nil {
			t.Fatalf("bad event %s: %v", raw, err)
		}
		switch ev.Act {
		case "Build":
			if ev.Hdr == nil {
				t.Fatalf("Build without header: %s", raw)
			}
			if _, dup := r.hdrs[ev.Id]; dup {
				t.Fatalf("header %d built twice", ev.Id)
			}
			h := r.build(ev.Id, ev.Hdr)
			r.register(ev.Id, h)
			r.pows[ev.Id] = ev.Hdr.Pow
			r.emit(raw, 0, "", map[string]interface{}{"hash": h.Hash().Hex()[:12]})
		case "Tick":
			r.now += ev.D
			r.emit(raw, 0, "", nil)
		case "Submit":
			r.submit(raw, &ev)
		default:
			t.Fatalf("unknown act %q", ev.Act)
		}
	}
	// C16 for this client type: the chain that holds the client is exported and re-created from the exported genesis;
	// the classes of store keys that differ are reported with the Export step (added by the harness to every behaviour)
	diff, info := nt.ExportImport("A")
	if diff == nil {
		diff = []string{}
	}
	info["diff"] = diff
	r.emit(json.RawMessage(`{"act":"Export"}`), 0, "", info)
}

func init() { Families["eth"] = runEth }
