\* design check, intended model, perturbations: every single-field perturbation of otherwise valid children, two timestamp
\* increments, chain time before and after the 15 s horizon; all three invariants must hold
CONSTANTS
  F_RESTRICT = TRUE
  MaxId = 2
  MaxNum = 2
  Now0 = 0
  MaxNow = 16
  Dts = {1, 13}
  Ticks = {16}
  GLs = {"same"}
  GUs = {"target"}
  Uncs = {0}
  PertOn = TRUE
  RealN = 0
  RealBudget = 0
  RealTimes <- RealTimes9
  Tree <- NoTree
  LOG = FALSE
  SimDepth = 0
INIT Init
NEXT Next
INVARIANTS Inv_C18 Inv_Sound Inv_Complete
CHECK_DEADLOCK FALSE
