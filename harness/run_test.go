package harness

import (
	"bufio"
	"encoding/json"
	"os"
	"testing"
)

// Input is the behaviour file written by the driver from TLC's output.
type Input struct {
	Family     string              `json:"family"`
	Chains     int                 `json:"chains"`
	Links      [][2]string         `json:"links"`
	Behaviours [][]json.RawMessage `json:"behaviours"`
	First      int                 `json:"first"` // trace id of the first behaviour
	Params     json.RawMessage     `json:"params,omitempty"`
}

// FamilyRunner executes one behaviour (a list of abstract events) on the real code and emits one record
// per event through out, preceded by a record whose event has act = "Reset" (the initial state).
type FamilyRunner func(t *testing.T, inp *Input, tr int, beh []json.RawMessage, out func(interface{}))

// Families is filled by init() functions of the family files.
var Families = map[string]FamilyRunner{}

// TestRun executes the behaviours of $VERIF_IN and writes the NDJSON trace to $VERIF_OUT.
func TestRun(t *testing.T) {
	in := os.Getenv("VERIF_IN")
	out := os.Getenv("VERIF_OUT")
	if in == "" || out == "" {
		t.Skip("VERIF_IN / VERIF_OUT not set")
	}
	bz, err := os.ReadFile(in)
	if err != nil {
		t.Fatal(err)
	}
	var inp Input
	if err := json.Unmarshal(bz, &inp); err != nil {
		t.Fatal(err)
	}
	run, ok := Families[inp.Family]
	if !ok {
		t.Fatalf("unknown family %q", inp.Family)
	}
	f, err := os.Create(out)
	if err != nil {
		t.Fatal(err)
	}
	defer f.Close()
	w := bufio.NewWriterSize(f, 1<<20)
	defer w.Flush()
	enc := json.NewEncoder(w)
	emit := func(rec interface{}) {
		if err := enc.Encode(rec); err != nil {
			t.Fatal(err)
		}
	}
	for bi, beh := range inp.Behaviours {
		run(t, &inp, inp.First+bi, beh, emit)
	}
}

func init() {
	Families["core"] = func(t *testing.T, inp *Input, tr int, beh []json.RawMessage, out func(interface{})) {
		nt := NewNet(t, inp.Chains, inp.Links)
		r := &Runner{N: nt, Tags: NewTags(), tr: tr}
		r.Out = func(rec *Rec) { out(rec) }
		r.InstallHook()
		r.StepCore(&Event{Act: "Reset"})
		for _, raw := range beh {
			var ev Event
			if err := json.Unmarshal(raw, &ev); err != nil {
				t.Fatalf("bad event %s: %v", raw, err)
			}
			r.StepCore(&ev)
		}
	}
}
