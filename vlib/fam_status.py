"""C14, status part: the Status() decision of each client type on an exhaustive grid (StatusClient.tla)."""
from . import tracefam as T

FAM = dict(
    name="status",
    design=[dict(role="intended", module="StatusClient.tla", cfg="status_design.cfg")],
    gen=dict(module="StatusClient.tla", cfgs=[("gen_status.cfg", 1.0)], quick=(1, 600), thorough=(1, 600)),
    trace=dict(module="TraceStatus.tla", cfg="trace_status.cfg"),
    harness=dict(family="status", chains=1, links=[]),
    assumptions=["the grid: 3 client types x periods {1 s, 100 s, 14 d} x ages {-100, -5, -1 (trusted state ahead of the block time), 0, p-1, p, p+1, 10p, 10^6 s} x sub-second parts {0, 1 ns, 0.5 s, 999999999 ns}"],
)
PROPS = []
