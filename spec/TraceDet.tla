------------------------------- MODULE TraceDet -------------------------------
(***************************************************************************)
(* Determinism (C20) as a twin-trace monitor: trace.ndjson and trace2.ndjson *)
(* are recordings of the SAME behaviours (same genesis, same ordered         *)
(* transactions, same block times) executed by two different processes       *)
(* (different GOMAXPROCS, different temporary directory, different sharding  *)
(* and therefore different earlier executions in the process, later wall     *)
(* clock).  The specification's step is "both executions take the same step  *)
(* and end in the same state": result code, fingerprint of the whole         *)
(* transaction result (log, gas, events), application hash of every chain,   *)
(* projected state and raw store digests must agree line by line.            *)
(***************************************************************************)
EXTENDS Naturals, Sequences, FiniteSets, TLC, Json

T1 == ndJsonDeserialize("trace.ndjson")
T2 == ndJsonDeserialize("trace2.ndjson")

VARIABLES l, bad
\* every recorded field is compared, except the free-form notes of the harness (info) - the fields differ by family:
\* packet families log code, rh (fingerprint of the whole transaction result), ah (application hash of every chain), st,
\* dig, app, calls, wack, sent; the light-client families log code, log, st and cdig (the client's sub-store, byte for byte)
Diff(a, b) == {[tr |-> a.tr, i |-> a.i, v |-> [p |-> "C20", f |-> "executions_differ", d |-> x]] :
                 x \in {y \in (DOMAIN a) \ {"info"} : (y \notin DOMAIN b) \/ a[y] # b[y]}}

Init == l = 0 /\ bad = {}
Next == /\ l < Len(T1) /\ l < Len(T2)
        /\ l' = l + 1
        /\ bad' = bad \cup Diff(T1[l + 1], T2[l + 1])
Spec == Init /\ [][Next]_<<l, bad>>

Done == (l = Len(T1) \/ l = Len(T2)) =>
          JsonSerialize("result.json", [n |-> l, n2 |-> Len(T2), steps |-> l, bad |-> bad, div |-> {}])
=============================================================================
