"""Family "routing": property C12 (rule-set syntax and authorisation of 26-routing).

Pipeline (vlib/tracefam.py): exhaustive TLC check of the sanity theorems of spec/Routing.tla on small
universes -> TLC generation (exhaustive enumeration of universes through the trace counter, random
rule lists with edited queries, strings at the length bound) -> harness/routing.go on the real
MsgServer / RoutingKeeper -> spec/TraceRouting.tla."""
from . import tracefam as T

PROPS = ["C12"]

ASSUMPTIONS = [
    "the specification's strings are sequences of characters; the harness joins them and splits the stored rules again (runes)",
    "rule sets reach the keeper through MsgSetRoutingRules.ValidateBasic and MsgServer.SetRoutingRules with the governance authority as signer; the gov proposal machinery itself is not exercised",
    "triples are identifiers (non-empty, no comma, at most 64 characters); exhaustive only over the listed small universes, sampled beyond",
    "Go's regexp package, the simapp store and TLC are trusted",
]


def fam_for(tier):
    quick = tier == "quick"
    design = [
        # universes of spec/MCRouting.tla: 2 = bracket characters, 3 = lists of two rules, 1 = identifiers over {a,+} of length <= 2,
        # 5 = brackets, wider
        dict(role="intended", module="MCRouting.tla", cfg="routing_design.cfg",
             overrides_quick={"DesignUniverses": "{2, 3}"}, overrides_thorough={"DesignUniverses": "{1, 2, 3, 5}"}),
    ]
    # One generation run: the first behaviours enumerate the universes GenUniverses of the cfg exhaustively
    # (quick: depth 20 = 10 rule lists per behaviour, universes 1 and 2 need 36 + 23 behaviours;
    #  thorough: depth 60 = 30 rule lists per behaviour, universes 4, 5, 3 need 74 + 34 + 32 behaviours),
    # the remaining behaviours are random (4 of 5) or at the length bound (1 of 5).
    cfgs = [("gen_routing.cfg" if quick else "gen_routing_thorough.cfg", 1.0)]
    return dict(
        name="routing",
        design=design,
        gen=dict(module="MCRouting.tla", cfgs=cfgs, quick=(100, 20), thorough=(220, 60), timeout=1500),
        trace=dict(module="TraceRouting.tla", cfg="trace_routing.cfg"),
        harness=dict(family="routing", chains=1, links=[]),
        assumptions=ASSUMPTIONS,
    )


FAM = fam_for("quick")


def check(prop, tier, seed, replay):
    fam = fam_for(tier)
    if replay:
        return T.replay(prop, fam, replay)
    r = T.run_family(fam, tier, seed)
    return T.verdict(prop, fam, tier, seed, r,
                     level_note="the specification contributes the decision table (syntax and field-wise match over character "
                                "sequences); there is no interleaving to explore: the checked object is a pure function of "
                                "(stored rules, query)")
