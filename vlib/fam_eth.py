"""ETH light client family (property C18): spec/Eth.tla, spec/EthMC.tla, spec/TraceEth.tla, harness/eth.go.

Pipeline (vlib/tracefam.py): exhaustive TLC design checks of the intended model (competing branches; single-field
perturbations) and of RestrictChain as coded -> behaviours = fixed files under behaviours/eth/ (every submission order
of seven fork shapes, enumerated by TLC; recorded mainnet headers under the real ethash check) + TLC simulation of the
as-coded and of the intended model -> real 09-eth client on a simapp chain -> TLC trace check.

VERIF_ETH_TREE=fixed selects trace_eth_fixed.cfg (F_RESTRICT = TRUE): use it for a tree in which RestrictChain is
repaired; the integrator flips F_RESTRICT in trace_eth.cfg / gen_eth.cfg / eth_ascoded.cfg in the commit of the fix."""
import os

from . import common as C
from . import tracefam as T

PROPS = ["C18"]


def _fam(tier):
    fixed = os.environ.get("VERIF_ETH_TREE") == "fixed"
    cfgs = [("gen_eth.cfg", 0.5), ("gen_eth_int.cfg", 0.5)]
    if tier == "thorough":
        # recorded mainnet headers and spoilt copies under the real ethash check: 3 behaviours x up to 8 verifications
        cfgs.append(("gen_eth_real.cfg", 0.008))
    return dict(
        name="eth",
        design=[
            dict(role="intended", module="MCEth.tla", cfg="eth_intended.cfg",
                 overrides_quick={"MaxId": "5"}, overrides_thorough={"MaxId": "6"}, timeout_thorough=1500),
            dict(role="intended", module="MCEth.tla", cfg="eth_intended_pert.cfg",
                 overrides_quick={"MaxId": "2"}, overrides_thorough={"MaxId": "3", "Dts": "{1}"}, timeout_thorough=1500),
            dict(role="as-coded", module="MCEth.tla", cfg="eth_ascoded.cfg", extra=["-continue"],
                 overrides_quick={"MaxId": "4"}, overrides_thorough={"MaxId": "5"}, timeout_thorough=1500),
        ],
        gen=dict(module="MCEth.tla", cfgs=cfgs, quick=(60, 40), thorough=(400, 50), timeout=1800),
        trace=dict(module="TraceEth.tla", cfg="trace_eth_fixed.cfg" if fixed else "trace_eth.cfg"),
        harness=dict(family="eth", chains=1, links=[]),
        assumptions=[
            "synthetic headers are not mined: the ethash seal check is switched off by the verif hook (VerifSkipSeal) around "
            "them and they stand for mined headers; the real seal check runs on recorded mainnet headers 13286182.. and on "
            "nonce/mix-digest-corrupted copies (3 verifications in quick, up to 24 in thorough)",
            "EIP-1559 base fee, the 1/1024 gas-limit bound and EIP-100 difficulty (9.7 M bomb delay) are abstract classes in "
            "TLA+ (prescribed / off by one / boundary); the harness realises them with an independent re-implementation "
            "from the EIP texts that is cross-checked in every run against the 9 recorded mainnet parent->child pairs",
            "trusting period 3.2e9 s: no consensus state is pruned and the client never expires inside a behaviour; "
            "revision number of header heights is always 0; branches are at most 4 blocks long (heights root+1..root+4)",
            "every synthetic header has its own state root (consensus states are identified by root); two competing "
            "headers with the SAME state root at one height are outside the model",
            "real code is exercised only on the behaviours replayed; cosmos-sdk BaseApp, TLC and the harness projection are trusted",
        ],
    )


FAM = _fam("quick")


def check(prop, tier, seed, replay):
    fam = _fam(tier)
    if replay:
        return T.replay(prop, fam, replay)
    r = T.run_family(fam, tier, seed)
    submits = {k: v for k, v in r["acts"].items() if k.startswith("Submit")}

    def n(prefix):
        return sum(v for k, v in submits.items() if k.startswith(prefix))
    # vacuity guard: the run must contain genuine and seal-corrupted recorded headers under the real ethash check,
    # valid synthetic headers, and perturbed ones (whatever the outcome was)
    for need in ("Submit:real_mined:", "Submit:real_badnonce:", "Submit:valid:", "Submit:time_eq:", "Submit:base_fee_",
                 "Submit:difficulty_", "Submit:gas_limit_"):
        if n(need) == 0:
            raise C.Inconclusive("vacuous run: no step of kind %s*" % need)
    return T.verdict(prop, fam, tier, seed, r, extra_cov=dict(
        real_code_steps=r["steps"], submits_by_outcome=submits,
        note="evaluations = MsgUpdateClient transactions executed on the real client (Build/Tick lines are environment steps)"))
