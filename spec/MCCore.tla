------------------------------- MODULE MCCore -------------------------------
(* Constant definitions for the TibcCore configurations (cfg files cannot hold tuples or functions). *)
EXTENDS TibcCoreMC

Links3 == [c \in Chains |-> Chains \ {c}]                      \* T3: full mesh A, B, C
RuleSetsSmall == { {}, {<<"A", "*", "mock">>} }
NoPairs == {}
ExpireCA == {<<"C", "A">>}
ExpireCB == {<<"C", "B">>}
RuleSetsGen == { {}, {<<"A", "C", "mock">>}, {<<"*", "*", "*">>}, {<<"A", "*", "mock">>, <<"C", "A", "*">>},
                 {<<"*", "C", "nft">>}, {<<"C", "A", "mock">>} }
=============================================================================
