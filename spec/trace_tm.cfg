\* trace validation for C07: every recorded step of the real 07-tendermint client against TmClient
SPECIFICATION TraceSpec
INVARIANT Done
CHECK_DEADLOCK FALSE
