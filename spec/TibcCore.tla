------------------------------- MODULE TibcCore -------------------------------
(***************************************************************************)
(* Core packet layer of tibc-go (modules/tibc/core/04-packet/keeper,        *)
(* modules/tibc/core/keeper/msg_server.go, 26-routing Authenticate) on a    *)
(* network of chains.  One action per transaction; the branch structure of  *)
(* every action follows the code line by line ("as coded").  Boolean        *)
(* constants F_* switch individual places to the behaviour the properties   *)
(* demand ("intended"); tree_flags.json says which position describes the   *)
(* current tree.                                                            *)
(*                                                                          *)
(* Protocol state of chain c is the record cs[c]; every field is a set of   *)
(* tuples, exactly the shape the conformance harness logs:                  *)
(*   ns  {<<s,d,next>>}   next send sequence (absent = 1)                   *)
(*   cm  {<<s,d,n,v>>}    packet commitments (v = committed value)          *)
(*   rc  {<<s,d,n>>}      receipts                                          *)
(*   ak  {<<s,d,n,a>>}    acknowledgement hashes                            *)
(*   cp  {<<s,d,N>>}      clean points (absent = 0)                         *)
(*   ma  {<<s,d,N>>}      max acknowledged sequence (absent = 0)            *)
(*   cl  {x}              chains this chain holds a light client of         *)
(*   ex  {x}              clients whose newest trusted state is expired     *)
(*   rules {<<s,d,p>>}    routing whitelist ("*" = wildcard)                *)
(* History variables record what every chain ever committed (ever), what    *)
(* was sent / accepted (sent, delivered, acked) and which application       *)
(* callbacks ran (cb1 = at least once, cb2 = more than once), and - for a   *)
(* client that expired - what it knew of its counterparty at that moment    *)
(* (frozen: an expired client can no longer be updated).                    *)
(***************************************************************************)
EXTENDS Naturals, FiniteSets, Sequences, TLC

CONSTANTS Chains,           \* chain names (strings)
          Names,            \* chain names a message may mention (Chains plus unknown ones)
          Ports,            \* port names a message may mention
          BoundPorts,       \* ports that have a route on every chain
          Data,             \* payload tags
          EmptyData,        \* the empty payload ("" in the core family; payloads of the other families are records)
          DecodableData,    \* payloads the NFT / MT applications can decode (as a packet with blank fields)
          AckTags,          \* acknowledgement tags an adversary may claim
          MaxSeq,           \* bound on sequences (model checking only)
          F_BIND,           \* TRUE: commitment binds port and relay chain (intended); FALSE: data only (as coded)
          F_ACKCB_SRC_ONLY, \* TRUE: ack callback only on the source chain (intended); FALSE: every chain (as coded)
          F_STATUS,         \* TRUE: packet keeper refuses proofs through expired clients (intended); FALSE: as coded
          F_RELAY_DST_ERRACK\* TRUE: relay chain records an error ack when it does not know the destination (intended)

VARIABLES cs, ever, sent, delivered, acked, cb1, cb2, evlog, frozen

vars  == <<cs, ever, sent, delivered, acked, cb1, cb2, evlog, frozen>>
hvars == <<ever, sent, delivered, acked, cb1, cb2, frozen>>

EmptyChain(cl) == [ns |-> {}, cm |-> {}, rc |-> {}, ak |-> {}, cp |-> {}, ma |-> {}, cl |-> cl, ex |-> {}, rules |-> {}]

-------------------------------------------------------------------------------
(* Accessors on a chain record r *)
NsR(r, s, d) == IF \E x \in r.ns : x[1] = s /\ x[2] = d
                THEN (CHOOSE x \in r.ns : x[1] = s /\ x[2] = d)[3] ELSE 1
CpR(r, s, d) == IF \E x \in r.cp : x[1] = s /\ x[2] = d
                THEN (CHOOSE x \in r.cp : x[1] = s /\ x[2] = d)[3] ELSE 0
MaR(r, s, d) == IF \E x \in r.ma : x[1] = s /\ x[2] = d
                THEN (CHOOSE x \in r.ma : x[1] = s /\ x[2] = d)[3] ELSE 0
HasCm(r, s, d, n) == \E x \in r.cm : x[1] = s /\ x[2] = d /\ x[3] = n
HasAk(r, s, d, n) == \E x \in r.ak : x[1] = s /\ x[2] = d /\ x[3] = n
Set3(S, s, d, v)    == {x \in S : ~(x[1] = s /\ x[2] = d)} \cup {<<s, d, v>>}
Set4(S, s, d, n, v) == {x \in S : ~(x[1] = s /\ x[2] = d /\ x[3] = n)} \cup {<<s, d, n, v>>}
Del4(S, s, d, n)    == {x \in S : ~(x[1] = s /\ x[2] = d /\ x[3] = n)}
MaxN(a, b) == IF a > b THEN a ELSE b

\* value committed for a packet
CVal(p) == IF F_BIND THEN <<p.data, p.port, p.relay>> ELSE p.data

\* 26-routing Authenticate for rules without regular-expression operators: field-wise, "*" wild
Match(f, x) == f = "*" \/ f = x
AuthR(r, s, d, port) == \E ru \in r.rules : Match(ru[1], s) /\ Match(ru[2], d) /\ Match(ru[3], port)

\* a client of x on this chain that the packet keeper is willing to use
Usable(r, x) == x \in r.cl /\ (F_STATUS => x \notin r.ex)

-------------------------------------------------------------------------------
(* Proofs.  A proof descriptor pf = [chain, kind, s, d, n, mode] stands for real proof bytes taken  *)
(* from chain pf.chain for the key (pf.kind, pf.s, pf.d, pf.n) at a height chosen by pf.mode:        *)
(*   best    the first height at which the claimed value was stored there (if ever)                  *)
(*   latest  the newest height the verifying client knows                                            *)
(*   early   a height before any packet existed;  future  a height the client has not been told      *)
(*   garbage / trunc   corrupted bytes of the best proof                                             *)
(* A relayer cannot forge Merkle proofs: verification succeeds iff the proof is for exactly the key  *)
(* and value the code asks for, from the chain whose client is consulted, and the fact was true.     *)
FactsNow(x, kind) == IF kind = "commit" THEN cs[x].cm ELSE IF kind = "ack" THEN cs[x].ak
                     ELSE {<<y[1], y[2], 0, y[3]>> : y \in cs[x].cp}
FactsEver(x, kind) == IF kind = "commit" THEN ever[x].cm ELSE IF kind = "ack" THEN ever[x].ak ELSE ever[x].cp

\* facts of chain x that chain c's client of x can verify: everything x ever committed, or - once that client
\* has expired and cannot be updated any more - what x had committed until then
Known(c, x, kind) == IF x \in cs[c].ex THEN {t[3] : t \in {u \in frozen[c] : u[1] = x /\ u[2] = kind}}
                     ELSE FactsEver(x, kind)

ProofOK(c, from, kind, s, d, n, v, pf) ==
  /\ from \in Chains
  /\ pf.chain = from /\ pf.kind = kind /\ pf.s = s /\ pf.d = d /\ (kind = "clean" \/ pf.n = n)   \* a clean key has no sequence
  /\ \/ pf.mode = "best"   /\ <<s, d, n, v>> \in Known(c, from, kind)
     \/ pf.mode = "latest" /\ <<s, d, n, v>> \in FactsNow(from, kind) /\ <<s, d, n, v>> \in Known(c, from, kind)

-------------------------------------------------------------------------------
(* Application oracle of the core family.  The mock port acknowledges everything with "mock".  The  *)
(* NFT and MT ports get opaque payloads here: one they cannot decode (the callback returns an error *)
(* and the transaction fails) and one that decodes to a packet with blank sender and receiver (the   *)
(* callback answers with an error acknowledgement and touches no token; on acknowledgement a result  *)
(* ack is a no-op, an error ack asks for a refund to the blank sender, which fails).                  *)
AppRecv(p) == IF p.port = "mock" THEN "mock"
              ELSE IF p.data \in DecodableData THEN "err" ELSE "FAIL"
AppAck(p, a) == IF p.port = "mock" THEN "ok"
                ELSE IF p.data \in DecodableData /\ a = "ok" THEN "ok" ELSE "FAIL"

Fail(r)          == [ok |-> FALSE, r |-> r, calls |-> {}, wack |-> {}]
Ok(r, calls, wa) == [ok |-> TRUE,  r |-> r, calls |-> calls, wack |-> wa]

ValidPkt(c, r, p) ==
  /\ p.seq >= 1 /\ p.data # EmptyData
  /\ (p.relay = c \/ p.dst = c \/ p.src = c)
  /\ p.seq > CpR(r, p.src, p.dst)

\* 04-packet WriteAcknowledgement on record r
WAck(c, r, p, a) ==
  LET target == IF p.relay # "" /\ p.dst = c THEN p.relay ELSE p.src IN
  IF a = "" \/ HasAk(r, p.src, p.dst, p.seq) \/ target \notin r.cl
  THEN [ok |-> FALSE, r |-> r]
  ELSE [ok |-> TRUE,
        r  |-> [r EXCEPT !.ak = Set4(@, p.src, p.dst, p.seq, a),
                         !.ma = Set3(@, p.src, p.dst, MaxN(MaR(r, p.src, p.dst), p.seq))]]

\* SendPacket (04-packet/keeper/packet.go) reached from an application on chain c
SendRes(c, r, p) ==
  LET target == IF p.relay # "" THEN p.relay ELSE p.dst IN
  IF /\ p.seq >= 1 /\ p.data # EmptyData
     /\ p.src = c
     /\ target \in r.cl
     /\ p.seq = NsR(r, p.src, p.dst)
  THEN Ok([r EXCEPT !.ns = Set3(@, p.src, p.dst, p.seq + 1),
                    !.cm = Set4(@, p.src, p.dst, p.seq, CVal(p))], {}, {})
  ELSE Fail(r)

\* MsgRecvPacket (msg_server.go RecvPacket + keeper RecvPacket + WriteAcknowledgement)
RecvResA(c, r, p, pf, appAns) ==   \* appAns: the application's answer ("FAIL" or the acknowledgement tag)
  LET from    == IF p.dst = c /\ p.relay # "" THEN p.relay ELSE p.src
      isRelay == p.relay = c
      isDst   == p.dst = c
      r1      == [r EXCEPT !.rc = @ \cup {<<p.src, p.dst, p.seq>>}]
      r2      == IF isRelay THEN [r1 EXCEPT !.cm = Set4(@, p.src, p.dst, p.seq, CVal(p))] ELSE r1
      call    == {<<c, "recv", p.src, p.dst, p.seq>>}
  IN
  IF ~ValidPkt(c, r, p) \/ <<p.src, p.dst, p.seq>> \in r.rc \/ ~Usable(r, from)
     \/ ~ProofOK(c, from, "commit", p.src, p.dst, p.seq, CVal(p), pf)
  THEN Fail(r)
  ELSE IF isRelay /\ ~AuthR(r, p.src, p.dst, p.port)
  THEN LET w == WAck(c, r1, p, "unauth") IN
       IF w.ok THEN Ok(w.r, {}, {<<p.src, p.dst, p.seq, "unauth">>}) ELSE Fail(r)
  ELSE IF isRelay /\ p.dst \notin r1.cl
  THEN IF F_RELAY_DST_ERRACK
       THEN LET w == WAck(c, r1, p, "unauth") IN
            IF w.ok THEN Ok(w.r, {}, {<<p.src, p.dst, p.seq, "unauth">>}) ELSE Fail(r)
       ELSE Fail(r)
  ELSE IF isDst
  THEN IF p.port \notin BoundPorts \/ appAns = "FAIL" THEN Fail(r)
       ELSE LET w == WAck(c, r2, p, appAns) IN
            IF w.ok THEN Ok(w.r, call, {<<p.src, p.dst, p.seq, appAns>>}) ELSE Fail(r)
  ELSE Ok(r2, {}, {})
RecvRes(c, r, p, pf) == RecvResA(c, r, p, pf, AppRecv(p))

\* MsgAcknowledgement (msg_server.go Acknowledgement + keeper AcknowledgePacket)
AckResA(c, r, p, a, pf, appAns) ==   \* appAns: "FAIL" if the application's acknowledgement callback returns an error
  LET from    == IF p.src = c /\ p.relay # "" THEN p.relay ELSE p.dst
      isRelay == p.relay = c
      r1      == [r EXCEPT !.cm = Del4(@, p.src, p.dst, p.seq),
                           !.ma = Set3(@, p.src, p.dst, MaxN(MaR(r, p.src, p.dst), p.seq))]
      r2      == IF isRelay THEN [r1 EXCEPT !.ak = Set4(@, p.src, p.dst, p.seq, a)] ELSE r1
      docb    == IF F_ACKCB_SRC_ONLY THEN p.src = c ELSE TRUE
      call    == IF docb THEN {<<c, "ack", p.src, p.dst, p.seq>>} ELSE {}
  IN
  IF \/ a = "" \/ p.port \notin BoundPorts
     \/ ~ValidPkt(c, r, p)
     \/ <<p.src, p.dst, p.seq, CVal(p)>> \notin r.cm
     \/ ~Usable(r, from)
     \/ ~ProofOK(c, from, "ack", p.src, p.dst, p.seq, a, pf)
     \/ (isRelay /\ p.src \notin r.cl)
     \/ (docb /\ appAns = "FAIL")
  THEN Fail(r)
  ELSE Ok(r2, call, IF isRelay THEN {<<p.src, p.dst, p.seq, a>>} ELSE {})
AckRes(c, r, p, a, pf) == AckResA(c, r, p, a, pf, AppAck(p, a))

\* ValidateCleanPacket (keeper.go) for source s on record r
CleanValid(r, s, d, N) ==
  /\ N > CpR(r, s, d) /\ N <= MaR(r, s, d)
  /\ \A x \in r.cm : ~(x[1] = s /\ x[2] = d /\ x[3] >= CpR(r, s, d) /\ x[3] <= N)

\* MsgCleanPacket on the source chain; the message's source field is ignored by the code.
\* The clean point is written before the two clean loops run, so they remove nothing here.
CleanRes(c, r, q) ==
  LET target == IF q.relay # "" THEN q.relay ELSE q.dst IN
  IF q.seq >= 1 /\ CleanValid(r, c, q.dst, q.seq) /\ target \in r.cl
  THEN Ok([r EXCEPT !.cp = Set3(@, c, q.dst, q.seq)], {}, {})
  ELSE Fail(r)

\* MsgRecvCleanPacket on any other chain
RecvCleanRes(c, r, q, pf) ==
  LET from == IF q.dst = c /\ q.relay # "" THEN q.relay ELSE q.src
      lo   == CpR(r, q.src, q.dst)
      gone(x) == x[1] = q.src /\ x[2] = q.dst /\ x[3] > lo /\ x[3] <= q.seq
  IN
  IF /\ q.seq >= 1 /\ CleanValid(r, q.src, q.dst, q.seq)
     /\ Usable(r, from)
     /\ ProofOK(c, from, "clean", q.src, q.dst, 0, q.seq, pf)
     /\ (q.relay = c => q.dst \in r.cl)
  THEN Ok([r EXCEPT !.ak = {x \in @ : ~gone(x)}, !.rc = {x \in @ : ~gone(x)},
                    !.cp = Set3(@, q.src, q.dst, q.seq)], {}, {})
  ELSE Fail(r)

\* MsgSetRoutingRules by the authority (rules given as triples; syntax is the subject of Routing.tla)
SetRulesRes(c, r, rules) == Ok([r EXCEPT !.rules = rules], {}, {})

\* the block time moves past the trusting period of c's client of x without an update
ExpireRes(c, r, x) == IF x \in r.cl THEN Ok([r EXCEPT !.ex = @ \cup {x}], {}, {}) ELSE Fail(r)

-------------------------------------------------------------------------------
(* One step of chain c for event e (a record with field act).  Total function: used by the model's  *)
(* next-state relation, by the behaviour generator and by the REFINE pass of the trace spec.        *)
StepRes(e) ==
  LET c == e.c  r == cs[c] IN
  CASE e.act = "Send"      -> SendRes(c, r, e.pkt)
    [] e.act = "Recv"      -> RecvRes(c, r, e.pkt, e.proof)
    [] e.act = "Ack"       -> AckRes(c, r, e.pkt, e.ack, e.proof)
    [] e.act = "Clean"     -> CleanRes(c, r, e.cp)
    [] e.act = "RecvClean" -> RecvCleanRes(c, r, e.cp, e.proof)
    [] e.act = "SetRules"  -> SetRulesRes(c, r, e.rules)
    [] e.act = "Expire"    -> ExpireRes(c, r, e.x)
    [] e.act \in {"ExportImport", "AdvanceTo", "RegisterRelayer"} -> Ok(r, {}, {})   \* genesis round trip, passing blocks,
                                                 \* relayer registry (Registry.tla): no change of the packet state

RecvFrom(c, p) == IF p.dst = c /\ p.relay # "" THEN p.relay ELSE p.src
AckFrom(c, p)  == IF p.src = c /\ p.relay # "" THEN p.relay ELSE p.dst

EverOf(x, old, new) == [cm |-> old.cm \cup new.cm, ak |-> old.ak \cup new.ak,
                        cp |-> old.cp \cup {<<y[1], y[2], 0, y[3]>> : y \in new.cp}]

\* history update for event e with result res (shared by model and trace spec)
HistNext(e, res) ==
  /\ ever' = [x \in Chains |-> EverOf(x, ever[x], cs'[x])]
  /\ sent' = IF e.act = "Send" /\ res.ok THEN sent \cup {e.pkt} ELSE sent
  /\ delivered' = IF e.act = "Recv" /\ res.ok
                   THEN delivered \cup {[c |-> e.c, pkt |-> e.pkt, exp |-> RecvFrom(e.c, e.pkt) \in cs[e.c].ex]} ELSE delivered
  /\ acked' = IF e.act = "Ack" /\ res.ok
               THEN acked \cup {[c |-> e.c, pkt |-> e.pkt, ack |-> e.ack, exp |-> AckFrom(e.c, e.pkt) \in cs[e.c].ex]} ELSE acked
  /\ cb1' = cb1 \cup res.calls
  /\ cb2' = cb2 \cup (cb1 \cap res.calls)
  /\ frozen' = IF e.act = "Expire" /\ res.ok /\ e.x \notin cs[e.c].ex
                THEN [frozen EXCEPT ![e.c] = @ \cup {<<e.x, "commit", t>> : t \in ever[e.x].cm}
                                                 \cup {<<e.x, "ack", t>> : t \in ever[e.x].ak}
                                                 \cup {<<e.x, "clean", t>> : t \in ever[e.x].cp}]
                ELSE frozen

Do(e) ==
  LET res == StepRes(e) IN
  /\ cs' = [cs EXCEPT ![e.c] = res.r]
  /\ HistNext(e, res)

-------------------------------------------------------------------------------
(* Properties (state invariants over the history variables, and action properties).                *)

SameKeyData(p, q) == p.src = q.src /\ p.dst = q.dst /\ p.seq = q.seq /\ p.data = q.data
\* C01: whatever a chain accepted was sent with the same source, destination, sequence and data,
\* and the chain it was proven from had committed it.
Inv_C01 == \A x \in delivered :
             /\ \E q \in sent : SameKeyData(x.pkt, q)
             /\ <<x.pkt.src, x.pkt.dst, x.pkt.seq, CVal(x.pkt)>> \in ever[RecvFrom(x.c, x.pkt)].cm

\* C02: the destination application processes a key at most once, and only on the destination.
Inv_C02 == /\ \A k \in cb2 : k[2] # "recv"
           /\ \A k \in cb1 : k[2] = "recv" => k[1] = k[4]

\* C03: ack callback at most once per key and only on the source; accepted acks were recorded by
\* the chain they were proven from and matched the packet still committed.
Inv_C03 == /\ \A k \in cb2 : k[2] # "ack"
           /\ \A k \in cb1 : k[2] = "ack" => k[1] = k[3]
           /\ \A x \in acked : /\ \E q \in sent : SameKeyData(x.pkt, q)
                               /\ <<x.pkt.src, x.pkt.dst, x.pkt.seq, x.ack>> \in ever[AckFrom(x.c, x.pkt)].ak

\* C09: sequences 1..next-1 are exactly the ones sent, on every channel
Inv_C09 == \A c \in Chains : \A d \in Names :
             LET nx == NsR(cs[c], c, d) IN
             /\ \A q \in sent : (q.src = c /\ q.dst = d) => q.seq < nx
             /\ \A n \in 1..(nx - 1) : \E q \in sent : q.src = c /\ q.dst = d /\ q.seq = n
             /\ \A q1, q2 \in sent : (q1.src = q2.src /\ q1.dst = q2.dst /\ q1.seq = q2.seq) => q1 = q2

\* C11: a relayed packet reaches the destination application only if the relay chain's rules allow it
Inv_C11 == \A k \in cb1 : k[2] = "recv" =>
             \A q \in sent : (q.src = k[3] /\ q.dst = k[4] /\ q.seq = k[5] /\ q.relay # "" /\ q.relay \in Chains)
                                => \E x \in delivered : x.c = q.relay /\ SameKeyData(x.pkt, q)

\* C13: every accepted receive / acknowledgement presents the packet exactly as sent (all six fields)
Inv_C13 == /\ \A x \in delivered : x.pkt \in sent
           /\ \A x \in acked : x.pkt \in sent

\* C10: clean points never decrease; live state is never discarded
Prop_C10mono == [][\A c \in Chains : \A y \in cs[c].cp : CpR(cs'[c], y[1], y[2]) >= y[3]]_vars
Inv_C10 == \A c \in Chains : \A y \in cs[c].cp :
             /\ \A x \in cs[c].cm : ~(x[1] = y[1] /\ x[2] = y[2] /\ x[3] <= y[3] /\ x[1] = c)
             /\ \A x \in cs[c].rc : ~(x[1] = y[1] /\ x[2] = y[2] /\ x[3] <= y[3])

\* C14 (packet part): nothing is accepted through an expired client
Inv_C14 == \A x \in delivered \cup acked : ~x.exp
=============================================================================
