\* design check, intended model (all flags TRUE): the statement's decision; every listed invariant must hold
CONSTANTS
  MaxV = 5
  F_NOWRAP = TRUE
  F_PRUNE_OLD = TRUE
  F_LENGTHS = TRUE
  F_FULLWINDOW = TRUE
  U <- U6
  Epochs = {3, 4}
  StartMults = {0, 2}
  InitSets <- InitSetsSel
  AnnSets <- AnnSetsSel
  Tier = 1
  Gls = {"norm", "min", "cap"}
  MaxLen = 5
  MaxOddTimes = 0
  ValidPct = 60
  LOG = FALSE
  SimDepth = 0
INIT Init
NEXT Next
INVARIANTS Inv_Decision Inv_Step Inv_Switch Inv_NoDoubleSeal Inv_RecWindow Inv_SomeoneCanSeal Inv_LatestHasCons
CHECK_DEADLOCK FALSE
