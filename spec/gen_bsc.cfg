\* behaviour generation from the as-coded model (simulation mode), validator sets of 1..5 members
CONSTANTS
  MaxV = 5
  F_NOWRAP = TRUE
  F_PRUNE_OLD = FALSE
  F_LENGTHS = TRUE
  F_FULLWINDOW = FALSE
  U <- U7
  Epochs = {3, 4, 5}
  StartMults = {0, 2, 7}
  InitSets <- InitSetsSel
  AnnSets <- AnnSetsSel
  Tier = 1
  Gls = {"norm", "min", "cap"}
  MaxLen = 0
  MaxOddTimes = 999
  ValidPct = 62
  LOG = TRUE
  SimDepth = 40
INIT Init
NEXT NextSim
INVARIANT PrintBehaviour
CHECK_DEADLOCK FALSE
