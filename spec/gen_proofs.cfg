\* exhaustive generation: every behaviour of the product is printed once (Modes: diag = quick tier, full = thorough)
CONSTANTS
  Heights = {1,2,3}
  TypesU = {"tm","bsc","eth"}
  Hists <- HistsAB
  KeysU <- KeysU6
  Vals = {1,2,3}
  Latests = {2,3}
  RootSets <- RootSets2
  DelaysTM = {0,1,2}
  DelaysBSC = {1,2}
  DelaysETH = {0,1,2}
  Nows = {3,4,5}
  VariantsU = {"genuine","relabelled","otherStore","truncated","reordered","valueSwapped","empty","garbage","shadowKey"}
  Modes = {"diag"}
  LOG = TRUE
  SimDepth = 1
INIT InitGen
NEXT NextBeh
INVARIANTS PrintBehaviour PrintSizes
CHECK_DEADLOCK FALSE
