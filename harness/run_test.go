package harness

import (
	"bufio"
	"encoding/json"
	"os"
	"testing"
)

// Input is the behaviour file written by the driver from TLC's output.
type Input struct {
	Family     string     `json:"family"`
	Chains     int        `json:"chains"`
	Links      [][2]string `json:"links"`
	Behaviours [][]Event  `json:"behaviours"`
	First      int        `json:"first"` // trace id of the first behaviour
}

// TestRun executes the behaviours of $VERIF_IN and writes the NDJSON trace to $VERIF_OUT.
func TestRun(t *testing.T) {
	in := os.Getenv("VERIF_IN")
	out := os.Getenv("VERIF_OUT")
	if in == "" || out == "" {
		t.Skip("VERIF_IN / VERIF_OUT not set")
	}
	bz, err := os.ReadFile(in)
	if err != nil {
		t.Fatal(err)
	}
	var inp Input
	if err := json.Unmarshal(bz, &inp); err != nil {
		t.Fatal(err)
	}
	f, err := os.Create(out)
	if err != nil {
		t.Fatal(err)
	}
	defer f.Close()
	w := bufio.NewWriterSize(f, 1<<20)
	defer w.Flush()
	enc := json.NewEncoder(w)
	for bi, beh := range inp.Behaviours {
		nt := NewNet(t, inp.Chains, inp.Links)
		r := &Runner{N: nt, Tags: NewTags(), tr: inp.First + bi}
		r.Out = func(rec *Rec) {
			if err := enc.Encode(rec); err != nil {
				t.Fatal(err)
			}
		}
		r.InstallHook()
		r.StepCore(&Event{Act: "Reset"})
		for i := range beh {
			ev := beh[i]
			switch inp.Family {
			case "core":
				r.StepCore(&ev)
			default:
				t.Fatalf("unknown family %q", inp.Family)
			}
		}
	}
}
