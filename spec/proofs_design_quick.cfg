\* design check, quick tier: the sanity theorems on a sub-product (one store history, fewer delays and times)
CONSTANTS
  Heights = {1,2,3}
  TypesU = {"tm","bsc","eth"}
  Hists <- HistsA
  KeysU <- KeysU6
  Vals = {1,2,3}
  Latests = {2,3}
  RootSets <- RootSets2
  DelaysTM = {0,2}
  DelaysBSC = {1,2}
  DelaysETH = {0,2}
  Nows = {3,4}
  VariantsU = {"genuine","relabelled","otherStore","truncated","reordered","valueSwapped","empty","garbage","shadowKey"}
  Modes = {"full"}
  LOG = FALSE
  SimDepth = 1
INIT Init
NEXT Next
INVARIANTS T_Sound T_OnlyIntactProofs T_DelayMonotone T_TimeMonotone T_Functional T_Complete T_Local T_BscNeverAtLatest T_WhyConsistent
CHECK_DEADLOCK FALSE
