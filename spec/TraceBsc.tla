------------------------------ MODULE TraceBsc ------------------------------
(***************************************************************************)
(* Trace specification for the bsc family.  trace.ndjson holds one record   *)
(* per step executed on the REAL client (harness/bsc.go): the abstract      *)
(* event, the result code of the MsgUpdateClient transaction, and the       *)
(* projection of the real client onto Bsc's state record.                   *)
(*                                                                          *)
(* MONITOR (bad, property C17): the recorded outcome against the            *)
(* statement's decision AcceptStmt, both ways, and the statement's          *)
(* post-state formulas.  The history hs follows what the real client        *)
(* accepted.                                                                *)
(* REFINE (div): the recorded outcome and post-state against the            *)
(* specification's own step function HdrRes under the flags of the tree.    *)
(* Neither stops the run.                                                   *)
(***************************************************************************)
EXTENDS Bsc, Json

TraceLog == ndJsonDeserialize("trace.ndjson")

VARIABLES l, bad, div, nsteps
tvars == <<vars, l, bad, div, nsteps>>

SetOf(t) == {t[i] : i \in DOMAIN t}
ConvState(j) == [on |-> j.on, epoch |-> j.epoch, num |-> j.num, hid |-> j.hid, gl |-> j.gl,
                 vals |-> SetOf(j.vals), pend |-> SetOf(j.pend), rec |-> SetOf(j.rec), cons |-> SetOf(j.cons)]
ConvEv(ev) == IF ev.act = "Export" THEN ev
              ELSE IF ev.act = "Init" THEN [ev EXCEPT !.vals = SetOf(@), !.pend = SetOf(@), !.rec = SetOf(@)]
              ELSE [ev EXCEPT !.ext = [vals |-> SetOf(@.vals), mal |-> @.mal]]

Lbl(f, detail) == [p |-> "C17", f |-> f, d |-> detail]
If(cond, lbl) == IF cond THEN {lbl} ELSE {}

FirstDiff(a, b) ==
  IF a.on # b.on THEN "on" ELSE IF a.epoch # b.epoch THEN "epoch" ELSE IF a.num # b.num THEN "num"
  ELSE IF a.hid # b.hid THEN "hid" ELSE IF a.gl # b.gl THEN "gl" ELSE IF a.vals # b.vals THEN "vals"
  ELSE IF a.pend # b.pend THEN "pend" ELSE IF a.rec # b.rec THEN "rec" ELSE IF a.cons # b.cons THEN "cons" ELSE "none"

SwitchDetail(s2, h2) ==
  IF s2.num >= SwitchDue(h2)
  THEN (IF s2.vals = h2.annOld THEN "not_switched_when_due" ELSE "wrong_set_after_switch")
  ELSE (IF s2.vals = h2.annSet THEN "switched_early" ELSE "wrong_set_before_switch")

(* e = header event, okR = the real client accepted, s2 = real state after, h2 = history after *)
Violations(e, okR, s2, h2) ==
  LET want == AcceptStmt(st, hs, e) IN
     If(okR /\ ~want, Lbl("accepted_invalid_header", WhyNot(st, hs, e)))
\cup If(~okR /\ want, Lbl("rejected_valid_header", IF Hashable(st) THEN e.tag ELSE "latest_header_unhashable"))
\cup If(okR /\ s2.num # st.num + 1, Lbl("latest_not_advanced_by_one", e.tag))
\cup If(okR /\ (s2.num # e.num \/ (s2.hid # e.id /\ s2.hid # -2)),     \* (-2: Header.Hash() panics on the stored header,
        Lbl("latest_is_not_the_accepted_header", ""))                    \*  the harness cannot name it)
\cup If(okR /\ ConsAt(s2, e.num) # {<<e.num, e.root, e.time>>},
        Lbl("consensus_state_is_not_the_headers", IF ConsAt(s2, e.num) = {} THEN "missing" ELSE "differs"))
\cup If(okR /\ {x \in s2.cons : x[1] # e.num} # {x \in st.cons : x[1] # e.num}, Lbl("other_consensus_state_changed", ""))
\cup If(okR /\ ~ValsAsAnnounced(s2, h2), Lbl("validator_set_not_as_announced", SwitchDetail(s2, h2)))
\cup If(~okR /\ s2 # st, Lbl("rejected_but_state_changed", FirstDiff(st, s2)))

Divergence(e, okR, s2) ==
  LET pred == HdrRes(st, hs, e) IN
     If(pred.ok # okR, [f |-> "outcome", d |-> (IF pred.ok THEN "spec accepts, code rejects: " ELSE "spec rejects, code accepts: ") \o e.tag])
\cup If(pred.ok = okR /\ pred.st # s2, [f |-> "post_state", d |-> FirstDiff(pred.st, s2)])
\cup If(st.on /\ e.gas \notin GasAlphabet(st.gl), [f |-> "alphabet", d |-> e.gas])

InitDivergence(e, okR, s2) ==
  LET pred == InitRes(st, e) IN
     If(pred.ok # okR, [f |-> "create_outcome", d |-> ""])
\cup If(pred.ok = okR /\ pred.st # s2, [f |-> "create_state", d |-> FirstDiff(pred.st, s2)])

TraceInit ==
  /\ l = 1 /\ bad = {} /\ div = {} /\ nsteps = 0
  /\ st = ConvState(TraceLog[1].st) /\ hs = NoHist /\ evlog = <<>>

TraceStep ==
  /\ l < Len(TraceLog)
  /\ l' = l + 1
  /\ evlog' = evlog
  /\ LET rec == TraceLog[l + 1] IN
     IF rec.ev.act = "Reset"
     THEN st' = ConvState(rec.st) /\ hs' = NoHist /\ UNCHANGED <<bad, div, nsteps>>
     ELSE LET e   == ConvEv(rec.ev)
              okR == rec.code = 0
              s2  == ConvState(rec.st)
              h2  == HistAfter(st, hs, e, okR)
          IN /\ st' = s2 /\ hs' = h2
             /\ nsteps' = nsteps + 1
             /\ IF e.act = "Export"   \* C16 for this client type: classes of store keys that differ after export + re-import
                THEN /\ bad' = bad \cup {[tr |-> rec.tr, i |-> rec.i,
                                           v |-> [p |-> "C16", f |-> "state_differs_after_export_import", d |-> rec.info.diff[k]]] :
                                            k \in DOMAIN rec.info.diff}
                                    \cup {[tr |-> rec.tr, i |-> rec.i, v |-> v] : v \in If(s2 # st, Lbl("store_changed_without_update", "Export"))}
                     /\ div' = div
                ELSE IF e.act = "Init"
                THEN /\ bad' = bad
                     /\ div' = div \cup {[tr |-> rec.tr, i |-> rec.i, v |-> v] : v \in InitDivergence(e, okR, s2)}
                ELSE /\ bad' = bad \cup {[tr |-> rec.tr, i |-> rec.i, v |-> v] : v \in Violations(e, okR, s2, h2)}
                     /\ div' = div \cup {[tr |-> rec.tr, i |-> rec.i, v |-> v] : v \in Divergence(e, okR, s2)}

TraceNext == TraceStep
TraceSpec == TraceInit /\ [][TraceNext]_tvars

\* written when the whole trace has been consumed; the driver requires n = number of lines
Done == (l = Len(TraceLog)) => JsonSerialize("result.json", [n |-> l, steps |-> nsteps, bad |-> bad, div |-> div])
=============================================================================
