------------------------------ MODULE MCRouting ------------------------------
(* Constant definitions for the RoutingMC configurations (cfg files cannot hold tuples).             *)
(* The exhaustive universes are numbered; design checks and "enum" generation share them.             *)
EXTENDS RoutingMC

\* all identifiers of length 1 and 2 over a tuple of characters
Idents12(cs) == [i \in 1..Len(cs) |-> <<cs[i]>>] \o
                [n \in 1..(Len(cs) * Len(cs)) |-> <<cs[((n - 1) \div Len(cs)) + 1], cs[((n - 1) % Len(cs)) + 1]>>]

\* malformed rules: wrong number of fields, empty fields, "*" inside a field, characters outside the alphabet
BadRulesStd == <<
  <<>>,                                             \* ""
  <<"a", ",", "a">>,                                \* a,a          two fields
  <<"a", ",", "a", ",", "a", ",", "a">>,            \* a,a,a,a      four fields
  <<",", "a", ",", "a">>,                           \* ,a,a         empty first field
  <<"a", ",", ",", "a">>,                           \* a,,a         empty middle field
  <<"a", ",", "a", ",">>,                           \* a,a,         empty last field
  <<"*", "*", ",", "a", ",", "a">>,                 \* **,a,a
  <<"a", "*", ",", "a", ",", "a">>,                 \* a*,a,a       prefix wildcard
  <<"a", ",", "*", "a", ",", "a">>,                 \* a,*a,a       suffix wildcard
  <<"a", ",", " ", ",", "a">>,                      \* a, ,a        blank
  <<"a", ",", "a", "/", ",", "a">>,                 \* a,a/,a       slash
  <<"a", ",", "a", ",", "a", " ">>,                 \* a,a,a<space> trailing blank
  <<"*", ",", "*", ",", "*", ",">> >>               \* *,*,*,

BadFieldsStd == << <<>>, <<"*", "*">>, <<"a", "*">>, <<"*", "a">>, <<"a", "*", "b">>, <<" ">>, <<"a", " ">>, <<"/">>, <<"a", "/", "b">>,
                   <<"(">>, <<")">>, <<"a", "|", "b">>, <<"?">>, <<"^">>, <<"$">>, <<"{">>, <<"a", "}">>, <<"~">>, <<"=">>,
                   <<"a", ":", "b">>, <<"%">>, <<"@">>, <<"!">>, <<"&">>, <<";">>, <<"'">> >>

\* universe 1: identifiers of length <= 2 over {a, +}, one rule per list           (343 rules, 216 triples)
\* universe 2: the bracket characters, one rule per list                           (216 rules, 125 triples)
\* universe 3: three fields, lists of up to two rules                             (27 rules, 931 lists, 8 triples)
\* universe 4: identifiers of length <= 2 over {a, b, +}, asked about 8 identifiers (2197 rules, 512 triples)
\* universe 5: brackets, wider                                                     (1000 rules, 729 triples)
\* universe 6: lists of up to two rules, wider                                     (216 rules, 47k lists, 64 triples)
Br1 == << <<"a">>, <<"[">>, <<"]">>, <<"[", "a", "]">>, <<"[", "]">>, Star >>
Br2 == << <<"a">>, <<"b">>, <<"[">>, <<"]">>, <<"[", "a", "]">>, <<"[", "a", "b", "]">>, <<"a", "]">>, <<"[", "a">>,
          <<"[", "a", "-", "b", "]">>, Star >>
FieldsOf(v) ==
  CASE v = 1 -> Idents12(<<"a", "+">>) \o <<Star>>
    [] v = 2 -> Br1
    [] v = 3 -> << <<"a">>, <<"+">>, Star >>
    [] v = 4 -> Idents12(<<"a", "b", "+">>) \o <<Star>>
    [] v = 5 -> Br2
    [] v = 6 -> << <<"a">>, <<"+">>, <<"a", "+">>, <<"[">>, <<"a", "a">>, Star >>
AskOf(v) ==
  CASE v = 4 -> << <<"a">>, <<"b">>, <<"+">>, <<"a", "a">>, <<"a", "b">>, <<"a", "+">>, <<"+", "a">>, <<"+", "+">> >>
    [] v = 6 -> << <<"a">>, <<"+">>, <<"a", "+">>, <<"a", "a">> >>
    [] OTHER -> SelectSeq(FieldsOf(v), LAMBDA f : f # Star)
MaxRulesOf(v) == IF v \in {3, 6} THEN 2 ELSE 1
BadRulesOf(v) == IF v \in {3, 6} THEN SubSeq(BadRulesStd, 1, 3) ELSE BadRulesStd

GenQuick    == <<1, 2>>
GenThorough == <<4, 5, 3>>
GenNone     == <<>>

\* characters for random identifiers: every special character of the alphabet, both cases, a digit
SimCharsStd  == <<"a", "b", "0", "Z", ".", "_", "+", "-", "#", "[", "]", "<", ">", "a", "+", "[", "]">>
SimCharsLong == <<"a", "b", "c", "x", "y", "0", "7", "Q">>
=============================================================================
