\* behaviour generation for C07 (simulation mode)
CONSTANTS
  MaxH = 40
  MaxT = 0
  MaxNow = 0
  MCSets = {"S1","S2","S3","S4","S5","S6","S7","S8","S9","S10"}
  Roots = {1,2,3}
  Pars <- ParsGen
  ParSel = 0
  Levels <- LevelsAll
  Ticks = {1}
  LOG = TRUE
  SimDepth = 45
INIT Init
NEXT NextSim
INVARIANT PrintBehaviour
CHECK_DEADLOCK FALSE
