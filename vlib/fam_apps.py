"""Application family: NFT and multi-token transfers over the packet layer (C04, C05, C06 and the token halves of
C02, C09, C19), at two amount scales (DESIGN.md 4.2)."""
import copy
from . import tracefam as T

T3 = [["A", "B"], ["B", "C"], ["A", "C"]]
BIG_UNIT = 1229782938247303441      # (2^64 - 1) / 15

FAM = dict(
    name="apps",
    design=[
        dict(role="intended", module="MCApps.tla", cfg="apps_intended.cfg",
             overrides_quick={"MaxPkts": "1"}, overrides_thorough={"MaxPkts": "2"}, timeout_thorough=2400),
    ],
    gen=dict(module="MCApps.tla", cfgs=[("gen_apps.cfg", 1.0)], quick=(40, 40), thorough=(480, 60), timeout=1500),
    trace=dict(module="TraceApps.tla", cfg="trace_apps.cfg"),
    harness=dict(family="apps", chains=3, links=T3, params={"unit": 1}),
    assumptions=[
        "TLA+ model TibcApps: class strings as segment sequences; error texts of application acknowledgements are not modelled (tag err)",
        "lineage (which native asset a token represents) is a ghost variable updated from the real ledger differences",
        "real code is exercised only on the behaviours replayed; irismod nft/mt modules, cosmos-sdk, TLC and the harness projection are trusted",
    ],
)

FAM_BIG = copy.deepcopy(FAM)
FAM_BIG.update(name="appsbig", design=[],
               gen=dict(module="MCApps.tla", cfgs=[("gen_apps_big.cfg", 1.0)], quick=(16, 40), thorough=(160, 60), timeout=1500),
               trace=dict(module="TraceApps.tla", cfg="trace_apps_big.cfg"),
               harness=dict(family="apps", chains=3, links=T3, params={"unit": BIG_UNIT}))

PROPS = ["C04", "C05", "C06"]


def runs(tier, seed):
    return [(FAM, T.run_family(FAM, tier, seed)), (FAM_BIG, T.run_family(FAM_BIG, tier, seed))]


def check(prop, tier, seed, replay):
    if replay:
        import json as _json
        return T.replay(prop, FAM_BIG if _json.load(open(replay)).get("family") == "appsbig" else FAM, replay)
    r = T.merge_runs(runs(tier, seed))
    return T.verdict(prop, FAM, tier, seed, r)
