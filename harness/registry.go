package harness

import (
	"encoding/json"
	"testing"
)

// Input is the behaviour file written by the driver from TLC's output.
type Input struct {
	Family     string              `json:"family"`
	Chains     int                 `json:"chains"`
	Links      [][2]string         `json:"links"`
	Behaviours [][]json.RawMessage `json:"behaviours"`
	First      int                 `json:"first"` // trace id of the first behaviour
	Params     json.RawMessage     `json:"params,omitempty"`
}

// FamilyRunner executes one behaviour (a list of abstract events) on the real code and emits one record
// per event through out, preceded by a record whose event has act = "Reset" (the initial state).
type FamilyRunner func(t *testing.T, inp *Input, tr int, beh []json.RawMessage, out func(interface{}))

// Families is filled by init() functions of the family files.
var Families = map[string]FamilyRunner{}

func init() {
	Families["core"] = func(t *testing.T, inp *Input, tr int, beh []json.RawMessage, out func(interface{})) {
		var params struct {
			Short [][2]string `json:"short"`
		}
		if len(inp.Params) > 0 {
			_ = json.Unmarshal(inp.Params, &params)
		}
		nt := NewNetShort(t, inp.Chains, inp.Links, params.Short)
		r := &Runner{N: nt, Tags: NewTags(), tr: tr}
		r.Out = func(rec *Rec) { out(rec) }
		r.InstallHook()
		r.StepCore(&Event{Act: "Reset"})
		for _, raw := range beh {
			var ev Event
			if err := json.Unmarshal(raw, &ev); err != nil {
				t.Fatalf("bad event %s: %v", raw, err)
			}
			r.StepCore(&ev)
		}
	}
}
