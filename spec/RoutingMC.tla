------------------------------ MODULE RoutingMC ------------------------------
(***************************************************************************)
(* Closed system for Routing: governance installs rule sets (well-formed    *)
(* and malformed), anybody asks whether a triple is authorised.             *)
(*   Next     exhaustive over a small universe (design check of the         *)
(*            definitions: the sanity theorems below are invariants)        *)
(*   NextSim  behaviour generation under `tlc -simulate`, three modes:      *)
(*     "enum"  the first behaviours (numbered by TLCGet("stats").traces)    *)
(*             install, PerBeh each, ALL rule lists of the universes        *)
(*             GenUniverses in the order of ListAt and ask, after each, for *)
(*             EVERY triple of that universe: exhaustive over the universe  *)
(*     "sim"   random rule lists over a wide character set, malformed       *)
(*             rules, and queries that are small edits of the stored rules  *)
(*     "long"  fields of length MaxLen-1, MaxLen, MaxLen+1 and random       *)
(* Events:  [act |-> "SetRules", rules |-> <<rule, ...>>]                   *)
(*          [act |-> "Auth", ts |-> <<triple, ...>>]  (a batch of queries)  *)
(* rules, fields are sequences of one-character strings.                    *)
(***************************************************************************)
EXTENDS Routing, Json, TLC

CONSTANTS UFields(_),   \* universe u: tuple of valid fields (identifiers and Star)
          UAsk(_),      \* universe u: tuple of identifiers; the triples asked about are UAsk x UAsk x UAsk
          UBadRules(_), \* universe u: tuple of malformed rules
          UMaxRules(_), \* universe u: 1 or 2, the longest rule list
          DesignUniverses, \* set of universes the exhaustive design check covers
          GenUniverses, \* tuple of universes enumerated by the first behaviours of a generation run
          SimChars,     \* tuple of characters for random identifiers
          LongChars,    \* tuple of characters for identifiers at the length bound
          SimMaxLen,    \* longest random identifier in mode "sim"
          BadFields,    \* tuple of malformed fields for mode "sim"
          Batch,        \* queries per Auth event in modes "sim" and "long"
          LOG, SimDepth

VARIABLES rules, last, evlog, u
vars == <<rules, last, evlog, u>>

Range(s) == {s[i] : i \in DOMAIN s}
Star3    == Join3(Star, Star, Star)

-------------------------------------------------------------------------------
(* The exhaustive universes and their enumeration *)
NF(v) == Len(UFields(v))
NB(v) == Len(UBadRules(v))
NG(v) == NF(v) * NF(v) * NF(v)      \* well-formed rules
NR(v) == NG(v) + NB(v)              \* all rules
RuleAt(v, i) ==                     \* i in 0..NR(v)-1
  LET F == UFields(v) n == Len(F) IN
  IF i < n * n * n THEN Join3(F[(i \div (n * n)) + 1], F[((i \div n) % n) + 1], F[(i % n) + 1])
  ELSE UBadRules(v)[i - n * n * n + 1]
NLists(v) == IF UMaxRules(v) = 1 THEN 1 + NR(v) ELSE 1 + NR(v) + NR(v) * NR(v)
ListAt(v, i) ==                     \* i in 0..NLists(v)-1
  IF i = 0 THEN <<>>
  ELSE IF i <= NR(v) THEN <<RuleAt(v, i - 1)>>
  ELSE <<RuleAt(v, (i - 1 - NR(v)) \div NR(v)), RuleAt(v, (i - 1 - NR(v)) % NR(v))>>

ExTriples(v) == LET A == UAsk(v) n == Len(A) IN
  [k \in 1..(n * n * n) |-> <<A[((k - 1) \div (n * n)) + 1], A[(((k - 1) \div n) % n) + 1], A[((k - 1) % n) + 1]>>]
ExRuleLists(v) == {ListAt(v, i) : i \in 0..(NLists(v) - 1)}
\* malformed single-rule lists (offered to every accepted state: they must change nothing)
ExBadLists(v)  == {<<UBadRules(v)[i]>> : i \in DOMAIN UBadRules(v)}

\* the universes are what they claim to be (checked by TLC before anything else)
AllUniverses == DesignUniverses \cup Range(GenUniverses)
ASSUME \A v \in AllUniverses : \A i \in DOMAIN UFields(v) : ValidField(UFields(v)[i])
ASSUME \A v \in AllUniverses : \A i \in DOMAIN UAsk(v) : IsIdent(UAsk(v)[i])
ASSUME \A v \in AllUniverses : \A i \in DOMAIN UBadRules(v) : ~ValidRule(UBadRules(v)[i])
ASSUME \A i \in DOMAIN BadFields : ~ValidField(BadFields[i])
\* splitting is the inverse of joining: the join of three valid fields is a valid rule with exactly these fields
ASSUME \A v \in DesignUniverses : \A a \in Range(UFields(v)), b \in Range(UFields(v)), c \in Range(UFields(v)) :
          ValidRule(Join3(a, b, c)) /\ Fields(Join3(a, b, c)) = <<a, b, c>>

-------------------------------------------------------------------------------
Init == rules = <<>> /\ last = [act |-> "Reset"] /\ evlog = <<>> /\ u \in DesignUniverses

Do(e) ==
  /\ u' = u
  /\ IF e.act = "SetRules"
     THEN LET res == SetRulesRes(rules, e.rules) IN
          /\ rules' = res.st
          /\ last' = [act |-> "SetRules", ok |-> res.ok, rs |-> e.rules]
     ELSE /\ rules' = rules
          /\ last' = [act |-> "Auth", ts |-> e.ts, ans |-> [i \in DOMAIN e.ts |-> AuthRes(rules, e.ts[i])]]
Log(e) == evlog' = IF LOG THEN Append(evlog, e) ELSE evlog

\* The exhaustive exploration is a tree of depth three per universe: every rule list of the universe is
\* offered to the empty state; every accepted state is then offered every malformed rule (which must change
\* nothing) and asked about every triple.  (Offering every list to every state would only repeat evaluations.)
Next ==
  \/ /\ last.act = "Reset"
     /\ \E rs \in ExRuleLists(u) : Do([act |-> "SetRules", rules |-> rs]) /\ Log(0)
  \/ /\ last.act = "SetRules" /\ last.ok
     /\ \E rs \in ExBadLists(u) : Do([act |-> "SetRules", rules |-> rs]) /\ Log(0)
  \/ /\ last.act = "SetRules" /\ (last.ok \/ rules = <<>>)
     /\ \E t \in Range(ExTriples(u)) : Do([act |-> "Auth", ts |-> <<t>>]) /\ Log(0)
Spec == Init /\ [][Next]_vars

-------------------------------------------------------------------------------
(* Sanity theorems of the definitions, checked exhaustively on the universes *)
RemoveAt(s, k) == SubSeq(s, 1, k - 1) \o SubSeq(s, k + 1, Len(s))
IsAuth == last.act = "Auth"

Inv_StoredValid == ValidRuleSet(rules)
\* with no rules stored nothing is authorised
Inv_EmptyNone == (IsAuth /\ rules = <<>>) => \A i \in DOMAIN last.ts : ~last.ans[i]
\* "*,*,*" authorises everything
Inv_StarAll == (IsAuth /\ Star3 \in Range(rules)) => \A i \in DOMAIN last.ts : last.ans[i]
\* a single rule without "*" authorises exactly one triple: its own three fields
Inv_Exact == (IsAuth /\ Len(rules) = 1 /\ "*" \notin CharsOf(rules[1])) =>
               \A i \in DOMAIN last.ts : last.ans[i] <=> (last.ts[i] = Fields(rules[1]))
\* adding a rule never withdraws an authorisation; every authorisation is due to one rule
Inv_Monotone == IsAuth => \A i \in DOMAIN last.ts :
                  /\ \A k \in DOMAIN rules : Authorised(RemoveAt(rules, k), last.ts[i]) => last.ans[i]
                  /\ last.ans[i] => \E k \in DOMAIN rules : Authorised(<<rules[k]>>, last.ts[i])
\* a refused rule set changes nothing, an accepted one is stored as given, a query changes nothing
Prop_Steps == [][/\ (last'.act = "SetRules" /\ ~last'.ok) => (rules' = rules /\ ~ValidRuleSet(last'.rs))
                 /\ (last'.act = "SetRules" /\ last'.ok) => (rules' = last'.rs /\ ValidRuleSet(last'.rs))
                 /\ (last'.act = "Auth") => rules' = rules]_vars

-------------------------------------------------------------------------------
(* Generation.  Operators that draw random values take a dummy argument: TLC evaluates a definition     *)
(* without parameters that mentions no variable only once.                                          *)
\* (drawing depends on a variable so that TLC cannot treat a draw as a constant and evaluate it only once)
Rnd(S) == RandomElement(IF Len(evlog) >= 0 THEN S ELSE {})
RC(cs) == cs[Rnd(1..Len(cs))]
RECURSIVE RandStrOver(_, _)
RandStrOver(cs, n) == IF n = 0 THEN <<>> ELSE IF n = 1 THEN <<RC(cs)>> ELSE RandStrOver(cs, n \div 2) \o RandStrOver(cs, n - (n \div 2))
RandStr(n) == RandStrOver(SimChars, n)
RandIdent(z) == RandStr(Rnd(1..SimMaxLen))
RandField(z) == IF Rnd(1..4) = 1 THEN Star ELSE RandIdent(0)
RandBadField(z) == BadFields[Rnd(1..Len(BadFields))]

RandRule(z) ==
  LET k == Rnd(1..20) IN
  IF k <= 15 THEN Join3(RandField(0), RandField(0), RandField(0))
  ELSE IF k = 16 THEN RandField(0) \o <<",">> \o RandField(0)                                  \* two fields
  ELSE IF k = 17 THEN Join3(RandField(0), RandField(0), RandField(0)) \o <<",">> \o RandField(0)      \* four fields
  ELSE IF k = 18 THEN Join3(RandBadField(0), RandField(0), RandField(0))
  ELSE IF k = 19 THEN Join3(RandField(0), RandBadField(0), RandField(0))
  ELSE Join3(RandField(0), RandField(0), RandBadField(0))
RECURSIVE RandRules(_)
RandRules(n) == IF n = 0 THEN <<>> ELSE <<RandRule(0)>> \o RandRules(n - 1)
RandList(z) == LET k == Rnd(1..10) IN RandRules(IF k = 1 THEN 0 ELSE IF k <= 6 THEN 1 ELSE IF k <= 9 THEN 2 ELSE 3)

\* a string close to field f: the queries that tell field-wise comparison from anything cleverer
Near(f) ==
  IF f = Star \/ f = <<>> THEN RandIdent(0) ELSE
  LET k == Rnd(1..12)
      i == Rnd(1..Len(f))
      opens  == {p \in 1..Len(f) : f[p] = "["}
      closes == {p \in 1..Len(f) : f[p] = "]"}
  IN  IF k <= 4 THEN f
      ELSE IF k = 5 THEN (IF Len(f) > 1 THEN RemoveAt(f, i) ELSE f)
      ELSE IF k = 6 THEN (IF i > 1 THEN [f EXCEPT ![i] = f[i - 1]] ELSE f \o <<f[1]>>)
      ELSE IF k = 7 THEN <<f[i]>>
      ELSE IF k = 8 THEN f \o <<f[Len(f)]>>
      ELSE IF k <= 10 THEN
           (IF \E p \in opens, q \in closes : q > p + 1
            THEN LET pq == CHOOSE pq \in opens \X closes : pq[2] > pq[1] + 1
                     m  == Rnd((pq[1] + 1)..(pq[2] - 1))
                 IN  SubSeq(f, 1, pq[1] - 1) \o <<f[m]>> \o SubSeq(f, pq[2] + 1, Len(f))
            ELSE IF "+" \in CharsOf(f) /\ Len(f) > 1
            THEN RemoveAt(f, CHOOSE p \in 1..Len(f) : f[p] = "+")
            ELSE f)
      ELSE IF k = 11 THEN SubSeq(f, 1, i)
      ELSE RandIdent(0)
NearTriple ==
  IF rules = <<>> \/ Rnd(1..8) = 1 THEN <<RandIdent(0), RandIdent(0), RandIdent(0)>>
  ELSE LET r == rules[Rnd(1..Len(rules))] IN <<Near(Field(r, 1)), Near(Field(r, 2)), Near(Field(r, 3))>>
RECURSIVE NearBatch(_)
NearBatch(n) == IF n = 0 THEN <<>> ELSE <<NearTriple>> \o NearBatch(n - 1)

\* mode "long"
LongLen(z) == LET k == Rnd(1..8) IN
           IF k <= 2 THEN MaxLen ELSE IF k = 3 THEN MaxLen + 1 ELSE IF k = 4 THEN MaxLen - 1 ELSE Rnd(5..MaxLen)
LongField(z) == IF Rnd(1..3) = 1 THEN RandField(0) ELSE RandStrOver(LongChars, LongLen(0))
LongList(z) == IF Rnd(1..4) = 1 THEN <<Join3(LongField(0), LongField(0), LongField(0)), Join3(RandField(0), LongField(0), RandField(0))>>
            ELSE <<Join3(LongField(0), LongField(0), LongField(0))>>
NearLong(f) ==
  IF f = Star \/ f = <<>> THEN RandIdent(0) ELSE
  LET k == Rnd(1..8) i == Rnd(1..Len(f)) IN
  IF k <= 4 THEN f
  ELSE IF k = 5 THEN (IF Len(f) > 1 THEN SubSeq(f, 1, Len(f) - 1) ELSE f)
  ELSE IF k = 6 THEN (IF Len(f) < MaxLen THEN f \o <<RC(LongChars)>> ELSE f)
  ELSE IF k = 7 THEN [f EXCEPT ![i] = RC(LongChars)]
  ELSE (IF Len(f) > 1 THEN RemoveAt(f, i) ELSE f)
LongTriple ==
  IF rules = <<>> THEN <<RandStrOver(LongChars, MaxLen), RandIdent(0), RandIdent(0)>>
  ELSE LET r == rules[Rnd(1..Len(rules))] IN <<NearLong(Field(r, 1)), NearLong(Field(r, 2)), NearLong(Field(r, 3))>>
RECURSIVE LongBatch(_)
LongBatch(n) == IF n = 0 THEN <<>> ELSE <<LongTriple>> \o LongBatch(n - 1)

\* Schedule of a generation run.  With PerBeh rule lists per behaviour, universe GenUniverses[k] needs
\* Quota(k) behaviours; behaviour number b (1, 2, ...: TLCGet("stats").traces) enumerates the universe whose
\* quota it falls into, later behaviours are random: every fifth in mode "long", the others in mode "sim".
PerBeh == IF SimDepth \div 2 = 0 THEN 1 ELSE SimDepth \div 2
Quota(k) == (NLists(GenUniverses[k]) + PerBeh - 1) \div PerBeh
RECURSIVE Cum(_)
Cum(k) == IF k = 0 THEN 0 ELSE Cum(k - 1) + Quota(k)
Slot(b) == IF \E k \in DOMAIN GenUniverses : Cum(k - 1) < b /\ b <= Cum(k)
           THEN CHOOSE k \in DOMAIN GenUniverses : Cum(k - 1) < b /\ b <= Cum(k) ELSE 0
SimEvent ==
  LET step  == Len(evlog)
      b     == TLCGet("stats").traces
      k     == Slot(b)
      \* enumerating behaviours alternate SetRules, Auth; random ones Auth, SetRules so that the first batch of
      \* queries meets the initial state of the chain, in which no rule list has ever been stored
      isSet == IF k > 0 THEN step % 2 = 0 ELSE step % 2 = 1
  IN  IF k > 0
      THEN LET v  == GenUniverses[k]
               li == ((b - Cum(k - 1) - 1) * PerBeh + (step \div 2)) % NLists(v)
           IN  IF isSet THEN [act |-> "SetRules", rules |-> ListAt(v, li)] ELSE [act |-> "Auth", ts |-> ExTriples(v)]
      ELSE IF (b - Cum(Len(GenUniverses))) % 5 # 0
      THEN (IF isSet THEN [act |-> "SetRules", rules |-> RandList(0)] ELSE [act |-> "Auth", ts |-> NearBatch(Batch)])
      ELSE (IF isSet THEN [act |-> "SetRules", rules |-> LongList(0)] ELSE [act |-> "Auth", ts |-> LongBatch(Batch)])

InitGen == rules = <<>> /\ last = [act |-> "Reset"] /\ evlog = <<>> /\ u = 0
NextSim == \E e \in {SimEvent} : Do(e) /\ Log(e)

PrintBehaviour == (Len(evlog) = SimDepth) => PrintT(<<"BEH", ToJson(evlog)>>)
=============================================================================
