\* design check, RestrictChain AS CODED (Inv_Complete is expected to fail while S15 is open), competing branches: every tree of MaxId valid headers (branches up to MaxNum long),
\* built and submitted in every order, with resubmissions; all three invariants must hold
CONSTANTS
  F_RESTRICT = TRUE
  MaxId = 5
  MaxNum = 4
  Now0 = 0
  MaxNow = 0
  Dts = {1}
  Ticks = {16}
  GLs = {"same"}
  GUs = {"target"}
  Uncs = {0}
  PertOn = FALSE
  RealN = 0
  RealBudget = 0
  RealTimes <- RealTimes9
  Tree <- NoTree
  LOG = FALSE
  SimDepth = 0
INIT Init
NEXT Next
INVARIANTS Inv_C18 Inv_Sound Inv_Complete
CHECK_DEADLOCK FALSE
