\* trace validation of the proofs family: every recorded verification call against Proofs!Verify
SPECIFICATION TraceSpec
INVARIANT Done
CHECK_DEADLOCK FALSE
