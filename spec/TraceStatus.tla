----------------------------- MODULE TraceStatus -----------------------------
(* Compares the answer of the real Status() of each client type with StatusClient!Allowed. *)
EXTENDS StatusClient

TraceLog == ndJsonDeserialize("trace.ndjson")
VARIABLES l, bad
SubClass(e) == IF e.sub = 0 THEN "whole_second" ELSE "with_subsecond_part"
AgeClass(e) == IF e.age > e.p THEN "past_period" ELSE IF e.age = e.p THEN "at_boundary"
               ELSE IF e.age < 0 THEN "trusted_state_ahead_of_block_time" ELSE "inside_period"

TInit == l = 1 /\ bad = {} /\ evlog = <<>>
TNext == /\ l < Len(TraceLog)
         /\ l' = l + 1
         /\ evlog' = evlog
         /\ LET rec == TraceLog[l + 1] IN
            bad' = bad \cup (IF rec.ev.act = "Status" /\ rec.status \notin Allowed(rec.ev)
                             THEN {[tr |-> rec.tr, i |-> rec.i,
                                    v |-> [p |-> "C14", f |-> "status_" \o rec.status \o "_but_" \o AgeClass(rec.ev),
                                           d |-> rec.ev.t \o ":" \o SubClass(rec.ev) \o (IF rec.ev.lag > 0 THEN ":stored_late" ELSE "")]]}
                             ELSE {})
TSpec == TInit /\ [][TNext]_<<l, bad, evlog>>
Done == (l = Len(TraceLog)) => JsonSerialize("result.json", [n |-> l, steps |-> l - 1, bad |-> bad, div |-> {}])
=============================================================================
