----------------------------- MODULE TraceProofs -----------------------------
(***************************************************************************)
(* Trace specification for the proofs family (C08).  trace.ndjson holds one *)
(* record per call of a REAL verification function (harness/proofs.go):     *)
(* the abstract case exactly as ProofsMC generated it, the result code      *)
(* (0 = the real code verified the proof) and what the harness concretised. *)
(* A behaviour starts with a Reset record, followed by the record of its     *)
(* Config event, which carries the client / store configuration.            *)
(*                                                                          *)
(* C08 is an "accepted if and only if" property: the recorded outcome is     *)
(* compared with Proofs!Verify through Proofs!StepRes, and a mismatch in     *)
(* either direction IS the violation (bad).  Anything else that is odd       *)
(* about a record (a case the harness could not realise, a panic inside the  *)
(* verification function, an unknown result code or event) goes to div.     *)
(* The run never stops at a failure.                                         *)
(***************************************************************************)
EXTENDS Proofs, Json, TLC

TraceLog == ndJsonDeserialize("trace.ndjson")

VARIABLES l, cfg, bad, div, nsteps
tvars == <<l, cfg, bad, div, nsteps>>

SetOf(t) == {t[i] : i \in DOMAIN t}

\* JSON arrays arrive as tuples: rebuild the sets of the configuration
ConvCfg(j) ==
  [cl  |-> [type |-> j.type, latest |-> j.latest, roots |-> SetOf(j.roots), delay |-> j.delay, proc |-> SetOf(j.proc)],
   S   |-> [h \in DOMAIN j.S |-> SetOf(j.S[h])],
   now |-> j.now]

Cfg0 == [cl |-> [type |-> "tm", latest |-> 0, roots |-> {}, delay |-> 0, proc |-> {}], S |-> <<>>, now |-> 0]

TraceInit ==
  /\ l = 0 /\ bad = {} /\ div = {} /\ nsteps = 0
  /\ cfg = Cfg0

\* which alteration (or which unaltered form) the refused proof had
FormOf(c, ev) == ev.pf.variant

Judge(c, rec) ==
  LET ev   == rec.ev
      pred == StepRes(c, ev)
      okR  == rec.code = 0
      who  == c.cl.type \o ":" \o ev.q.kind \o ":"
  IN  [bad |-> IF rec.code \in {0, 1, 3} /\ okR /\ ~pred.ok
                 THEN {[p |-> "C08", f |-> "verified_but_should_fail", d |-> who \o pred.why]}
               ELSE IF rec.code \in {0, 1, 3} /\ ~okR /\ pred.ok
                 THEN {[p |-> "C08", f |-> "failed_but_should_verify", d |-> who \o FormOf(c, ev)]}
               ELSE {},
       div |-> IF rec.code = 2 THEN {[f |-> "unrealisable", d |-> who \o rec.log]}
               ELSE IF rec.code = 3 THEN {[f |-> "panic", d |-> who \o ev.pf.variant]}
               ELSE IF rec.code \notin {0, 1} THEN {[f |-> "unknown_code", d |-> who]}
               ELSE {}]

(* One step per record.  (Judging a whole behaviour in one step was tried and is much slower: TLC   *)
(* re-evaluates LET definitions inside the iteration over the behaviour's records.)                 *)
TraceStep ==
  /\ l < Len(TraceLog)
  /\ l' = l + 1
  /\ LET rec == TraceLog[l + 1] IN
     IF rec.ev.act = "Reset"
     THEN cfg' = Cfg0 /\ UNCHANGED <<bad, div, nsteps>>
     ELSE IF rec.ev.act = "Config"
     THEN cfg' = ConvCfg(rec.ev.cfg) /\ UNCHANGED <<bad, div, nsteps>>
     ELSE IF rec.ev.act = "Verify"
     THEN LET j == Judge(cfg, rec) IN
          /\ cfg' = cfg
          /\ nsteps' = nsteps + 1
          /\ bad' = bad \cup {[tr |-> rec.tr, i |-> rec.i, v |-> v] : v \in j.bad}
          /\ div' = div \cup {[tr |-> rec.tr, i |-> rec.i, v |-> v] : v \in j.div}
     ELSE /\ cfg' = cfg /\ UNCHANGED <<bad, nsteps>>
          /\ div' = div \cup {[tr |-> rec.tr, i |-> rec.i, v |-> [f |-> "unknown_event", d |-> rec.ev.act]]}

TraceNext == TraceStep
TraceSpec == TraceInit /\ [][TraceNext]_tvars

\* written when the whole trace has been consumed; the driver requires n = number of lines
Done == (l = Len(TraceLog)) => JsonSerialize("result.json", [n |-> l, steps |-> nsteps, bad |-> bad, div |-> div])
=============================================================================
