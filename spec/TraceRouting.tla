---------------------------- MODULE TraceRouting ----------------------------
(***************************************************************************)
(* Trace specification of the routing family (property C12).  trace.ndjson  *)
(* holds one record per step executed on the REAL code by harness/routing.go*)
(*   SetRules: the rule list offered (sequences of characters), whether the *)
(*             real MsgSetRoutingRules took effect (code = 0), the rule     *)
(*             list stored afterwards and a digest of the raw stored value  *)
(*   Auth:     a batch of triples and the real Authenticate answer for each *)
(* C12 is an "if and only if" in both of its sentences, so every difference *)
(* between the recorded outcome and Routing!ValidRuleSet / Routing!Authorised*)
(* is a violation (bad, p = "C12"); d names the class of characters         *)
(* responsible.  Other differences (what is stored, a refused request that  *)
(* changes something, the two validation layers disagreeing) go to div.     *)
(***************************************************************************)
EXTENDS Routing, Json, TLC

TraceLog == ndJsonDeserialize("trace.ndjson")

VARIABLES l, rules, dig, bad, div, nsteps
tvars == <<l, rules, dig, bad, div, nsteps>>

TraceInit ==
  /\ l = 1 /\ bad = {} /\ div = {} /\ nsteps = 0
  /\ rules = TraceLog[1].st.rules
  /\ dig = TraceLog[1].dig

Lbl(f, detail) == [p |-> "C12", f |-> f, d |-> detail]
If(cond, x)    == IF cond THEN {x} ELSE {}

\* SetRules: accepted iff every rule is valid
\* ... and an accepted rule set IS the stored rule set from then on ("authorised iff some stored rule matches" speaks
\* about the rules that were accepted last; "with no rules stored nothing is authorised": an accepted empty list stores none)
V_Stored(rs, okR, rec) ==
     If(okR /\ rec.st.rules # rs, Lbl("accepted_rules_not_the_stored_rules", IF Len(rs) = 0 THEN "empty_list" ELSE "non_empty"))
V_Set(rs, okR) ==
     If(okR /\ ~ValidRuleSet(rs), Lbl("ruleset_accepted_but_invalid", RuleSetDefect(rs)))
\cup If(~okR /\ ValidRuleSet(rs), Lbl("ruleset_rejected_but_valid",
                                      IF Len(rs) = 0 THEN "empty_list" ELSE ContentClass(CharsOfSet(rs), HasMaxLen(rs))))
D_Set(rs, okR, rec) ==
     If(okR /\ rec.st.rules # rs, [f |-> "accepted_rules_not_stored_as_given", d |-> ""])
\cup If(~okR /\ (rec.st.rules # rules \/ rec.dig # dig), [f |-> "rejected_but_changed", d |-> ""])
\cup If((rec.vb = 0) # ValidRuleSet(rs), [f |-> "layer_disagrees_with_specification", d |-> "validate_basic"])
\cup If((rec.srv = 0) # ValidRuleSet(rs), [f |-> "layer_disagrees_with_specification", d |-> "msg_server"])

\* Auth: authorised iff some stored rule matches field by field
V_Auth(ts, ans) ==
  LET FS == SplitAll(rules) IN
  UNION {  If(ans[i] /\ ~AuthorisedBy(FS, ts[i]), Lbl("authorised_but_no_rule_matches", MatchClass(rules)))
      \cup If(~ans[i] /\ AuthorisedBy(FS, ts[i]), Lbl("not_authorised_but_rule_matches", MatchClass(MatchingRules(rules, ts[i]))))
        : i \in DOMAIN ts }
D_Auth(ts, rec) ==
     If(rec.st.rules # rules \/ rec.dig # dig, [f |-> "query_changed_state", d |-> ""])

TraceStep ==
  /\ l < Len(TraceLog)
  /\ l' = l + 1
  /\ LET rec == TraceLog[l + 1] IN
     /\ rules' = rec.st.rules
     /\ dig' = rec.dig
     /\ IF rec.ev.act = "Reset" THEN UNCHANGED <<bad, div, nsteps>>
        ELSE IF rec.ev.act = "SetRules"
        THEN /\ nsteps' = nsteps + 1
             /\ bad' = bad \cup {[tr |-> rec.tr, i |-> rec.i, v |-> v] : v \in V_Set(rec.ev.rules, rec.code = 0) \cup V_Stored(rec.ev.rules, rec.code = 0, rec)}
             /\ div' = div \cup {[tr |-> rec.tr, i |-> rec.i, v |-> v] : v \in D_Set(rec.ev.rules, rec.code = 0, rec)}
        ELSE IF Len(rec.ans) # Len(rec.ev.ts)
        THEN /\ nsteps' = nsteps + 1 /\ bad' = bad
             /\ div' = div \cup {[tr |-> rec.tr, i |-> rec.i, v |-> [f |-> "answers_missing", d |-> ""]]}
        ELSE /\ nsteps' = nsteps + Len(rec.ev.ts)
             /\ bad' = bad \cup {[tr |-> rec.tr, i |-> rec.i, v |-> v] : v \in V_Auth(rec.ev.ts, rec.ans)}
             /\ div' = div \cup {[tr |-> rec.tr, i |-> rec.i, v |-> v] : v \in D_Auth(rec.ev.ts, rec)}

TraceNext == TraceStep
TraceSpec == TraceInit /\ [][TraceNext]_tvars

Done == (l = Len(TraceLog)) => JsonSerialize("result.json", [n |-> l, steps |-> nsteps, bad |-> bad, div |-> div])
=============================================================================
