\* design check of TmClient: every header of a small universe against every reachable client store
CONSTANTS
  MaxH = 3
  MaxT = 4
  MaxNow = 3
  MCSets = {"S4","S11"}
  Roots = {1}
  Pars <- ParsDesign
  ParSel = 1
  Levels <- LevelsDesign
  Ticks = {1}
  LOG = FALSE
  SimDepth = 0
INIT Init
NEXT Next
INVARIANTS Inv_Shape Inv_Update
PROPERTIES Prop_LatestMono Prop_Origin Prop_ParFrame
CHECK_DEADLOCK FALSE
