--------------------------------- MODULE Eth ---------------------------------
(***************************************************************************)
(* ETH (ethash, London rules) light client of tibc-go                       *)
(* (modules/tibc/light-clients/09-eth/types: update.go, header.go,          *)
(* verify_header.go, store.go; reached through 02-client UpdateClient).     *)
(*                                                                          *)
(* Environment state                                                        *)
(*   hs    id -> header: every header the environment has ever built (a     *)
(*         tree; id 0 is the header the client was created from).  Ids are   *)
(*         small integers; the harness gives every id a distinct hash        *)
(*         (distinct state root and extra data) and maps id <-> hash.        *)
(*   now   chain time of the host chain, in seconds after the root header's  *)
(*         timestamp (header times use the same scale).                      *)
(* Client state (record cl; exactly what the harness projects from the store)*)
(*   index  ids of the headers the client has stored                         *)
(*   cons   {<<n, id>>}: the consensus state exposed for height root+n is    *)
(*          the one of header id (identified by its state root)              *)
(*   head   id of the client state's latest header                           *)
(*   rm     {<<id, id2>>}: root -> header-index mapping (metadata)           *)
(*                                                                          *)
(* A header is a record                                                     *)
(*   parent  id of the header whose hash is in ParentHash (99: never built)  *)
(*   num     number - root number         time   timestamp - root timestamp *)
(*   gl gu bf df  abstract class of gas limit / gas used / base fee /        *)
(*           difficulty RELATIVE TO THE PARENT.  The arithmetic of EIP-1559, *)
(*           the 1/1024 gas-limit bound and EIP-100 (+ 9.7 M bomb delay) is  *)
(*           not re-modelled in TLA+: "ok"/"same"/... mean "the value the    *)
(*           rule prescribes / allows", and the harness realises the class   *)
(*           with concrete numbers (boundary values) when it builds inputs.  *)
(*   unc     1 if the header lists uncles (changes its children's difficulty)*)
(*   pow     hooked   synthetic, seal check switched off by the verif hook   *)
(*                    (stands for a mined header)                            *)
(*           mined    recorded mainnet header, real ethash check             *)
(*           badnonce / badmix   recorded header with nonce / mix digest      *)
(*                    altered, real ethash check                             *)
(*           unmined  synthetic header under the real ethash check           *)
(*   src, k  "real", k: the k-th recorded mainnet header after the root      *)
(*   tag     the generator's label of the header (statistics only)           *)
(*                                                                          *)
(* F_RESTRICT = TRUE is the behaviour property C18 demands; FALSE describes  *)
(* RestrictChain as coded (update.go): it only succeeds when it has nothing  *)
(* to rewrite.                                                              *)
(***************************************************************************)
EXTENDS Integers, FiniteSets, Sequences, TLC

CONSTANTS F_RESTRICT

VARIABLES hs, cl, now, refused, evlog
vars == <<hs, cl, now, refused, evlog>>

Drift   == 15          \* allowedFutureBlockTime, seconds
None    == -1
Unknown == 99          \* parent id of a header whose parent was never built

GLok == {"same", "up_1", "down_1", "up_max", "down_max"}   \* |gl - parent.gl| <  parent.gl / 1024
GLbad == {"up_over", "down_over"}                          \* |gl - parent.gl| >= parent.gl / 1024
GUok == {"target", "full", "empty", "above", "below"}      \* gas used <= gas limit
GUbad == {"over"}                                          \* gas used = gas limit + 1
BFs  == {"ok", "plus1", "minus1"}
DFs  == {"ok", "plus1", "minus1", "zero"}
POWok == {"hooked", "mined"}

RootHdr == [parent |-> None, num |-> 0, time |-> 0, gl |-> "same", gu |-> "full", bf |-> "ok", df |-> "ok",
            unc |-> 0, pow |-> "mined", src |-> "real", k |-> 0, tag |-> "root"]
Client0 == [index |-> {0}, cons |-> {<<0, 0>>}, head |-> 0, rm |-> {<<0, 0>>}]

-------------------------------------------------------------------------------
ConsAt(cons, n) == IF \E c \in cons : c[1] = n THEN (CHOOSE c \in cons : c[1] = n)[2] ELSE None

\* the ancestor of header i with number n in tree h (None if there is none)
RECURSIVE AncAt(_, _, _)
AncAt(h, i, n) == IF i \notin DOMAIN h THEN None
                  ELSE IF h[i].num = n THEN i
                  ELSE IF h[i].num < n THEN None
                  ELSE AncAt(h, h[i].parent, n)

Max(S) == CHOOSE x \in S : \A y \in S : y <= x
\* number of the youngest common ancestor of a and b (root is a common ancestor of everything stored)
LcaNum(h, a, b) == LET m == IF h[a].num < h[b].num THEN h[a].num ELSE h[b].num
                       S == {n \in 0..m : AncAt(h, a, n) # None /\ AncAt(h, a, n) = AncAt(h, b, n)}
                   IN IF S = {} THEN None ELSE Max(S)

-------------------------------------------------------------------------------
(* THE DECISION (property C18, first sentence).  A list of named conditions; the header is accepted  *)
(* iff all hold.                                                                                      *)
Checks(h, c, t, id, x) ==
  LET known == x.parent \in c.index /\ x.parent \in DOMAIN h
      p     == IF known THEN h[x.parent] ELSE x
  IN << <<"duplicate",              id \notin c.index>>,
        <<"unknown_parent",         known>>,
        <<"number",                 known => x.num = p.num + 1>>,
        <<"time_not_after_parent",  known => x.time > p.time>>,
        <<"time_future",            x.time <= t + Drift>>,
        <<"gas_limit:" \o x.gl,     x.gl \in GLok>>,
        <<"gas_used:" \o x.gu,      x.gu \in GUok>>,
        <<"base_fee:" \o x.bf,      x.bf = "ok">>,
        <<"difficulty:" \o x.df,    x.df = "ok">>,
        <<"seal:" \o x.pow,         x.pow \in POWok>> >>

Failing(h, c, t, id, x) == SelectSeq(Checks(h, c, t, id, x), LAMBDA q : ~q[2])
Accept(h, c, t, id, x)  == Failing(h, c, t, id, x) = <<>>
\* name of the first rule that refuses the header ("" if none)
Why(h, c, t, id, x) == LET f == Failing(h, c, t, id, x) IN IF f = <<>> THEN "" ELSE f[1][1]

\* how a rule-valid header relates to the current head: 0 = extends it, d > 0 = d blocks of the
\* head's chain are abandoned
ForkDepth(h, c, id) == LET l == LcaNum(h, c.head, id) IN IF l = None THEN None ELSE h[c.head].num - l
Dir(h, c, id) == IF h[id].num > h[c.head].num THEN "up" ELSE IF h[id].num = h[c.head].num THEN "level" ELSE "down"

-------------------------------------------------------------------------------
(* THE POST-STATE.  intended: the consensus states for numbers up to the new header are exactly its  *)
(* ancestor chain; as coded: update() + keeper write the new header's own height only, and           *)
(* RestrictChain fails as soon as its list of hashes to rewrite is not empty.                        *)
ConsIntended(h, c, id) == {q \in c.cons : q[1] > h[id].num} \cup {<<n, AncAt(h, id, n)>> : n \in 0..h[id].num}
ConsCoded(h, c, id)    == {q \in c.cons : q[1] # h[id].num} \cup {<<h[id].num, id>>}

RestrictCodedOK(h, c, id) ==
  LET x   == h[id]
      H   == h[c.head]
      cur == IF x.num < H.num THEN ConsAt(c.cons, x.num) ELSE c.head
  IN \/ x.parent = c.head                                             \* no fork: RestrictChain not called
     \/ x.num <= H.num /\ cur \in DOMAIN h /\ cur \in c.index /\ h[cur].parent = x.parent

SubmitRes(h, c, t, id) ==
  LET rule == Accept(h, c, t, id, h[id])
      ok   == rule /\ (F_RESTRICT \/ RestrictCodedOK(h, c, id))
  IN [ok |-> ok, rule |-> rule,
      cl |-> IF ok THEN [index |-> c.index \cup {id},
                         cons  |-> IF F_RESTRICT THEN ConsIntended(h, c, id) ELSE ConsCoded(h, c, id),
                         head  |-> id,
                         rm    |-> c.rm \cup {<<id, id>>}]
             ELSE c]

(* One step for event e: Build adds a header to the environment's tree (no call of the client),      *)
(* Tick advances chain time, Submit hands header e.id to the client.                                  *)
StepRes(h, c, t, e) ==
  CASE e.act = "Build"  -> [ok |-> TRUE, rule |-> TRUE, hs |-> (e.id :> e.hdr) @@ h, cl |-> c, now |-> t]
    [] e.act = "Tick"   -> [ok |-> TRUE, rule |-> TRUE, hs |-> h, cl |-> c, now |-> t + e.d]
    [] e.act = "Submit" -> LET r == SubmitRes(h, c, t, e.id) IN
                           [ok |-> r.ok, rule |-> r.rule, hs |-> h, cl |-> r.cl, now |-> t]
    \* genesis export and re-import of the chain that holds the client (C16): the client is what it was
    [] e.act = "Export" -> [ok |-> TRUE, rule |-> TRUE, hs |-> h, cl |-> c, now |-> t]

Do(e) ==
  LET r == StepRes(hs, cl, now, e) IN
  /\ hs' = r.hs /\ cl' = r.cl /\ now' = r.now
  /\ refused' = IF e.act = "Submit" /\ r.rule /\ ~r.ok THEN refused \cup {e.id} ELSE refused

-------------------------------------------------------------------------------
(* Properties *)

\* C18, second sentence: the consensus states exposed for heights up to the latest header belong to
\* a single parent-linked chain ending at that header
OneChain(h, c) ==
  /\ c.head \in c.index /\ c.head \in DOMAIN h
  /\ ConsAt(c.cons, h[c.head].num) = c.head
  /\ \A q \in c.cons : q[1] <= h[c.head].num => q[2] = AncAt(h, c.head, q[1])
  /\ \A q1, q2 \in c.cons : q1[1] = q2[1] => q1 = q2
Inv_C18 == OneChain(hs, cl)

\* only headers that satisfy the rule are ever stored (soundness as a state invariant)
Inv_Sound ==
  /\ cl.index \subseteq DOMAIN hs
  /\ \A i \in cl.index \ {0} :
       LET x == hs[i] IN
       /\ x.parent \in cl.index /\ x.num = hs[x.parent].num + 1 /\ x.time > hs[x.parent].time
       /\ x.time <= now + Drift
       /\ x.gl \in GLok /\ x.gu \in GUok /\ x.bf = "ok" /\ x.df = "ok" /\ x.pow \in POWok
  /\ cl.rm = {<<i, i>> : i \in cl.index}

\* no header that satisfies the rule is ever refused (completeness; fails in the as-coded model)
Inv_Complete == refused = {}
=============================================================================
