-------------------------------- MODULE MCEth --------------------------------
(* Constant definitions for the Eth configurations (cfg files cannot hold tuples or functions). *)
EXTENDS EthMC

\* timestamps of the recorded mainnet headers 13286182..13286190 minus the timestamp of 13286181
\* (modules/tibc/light-clients/09-eth/types/testdata/update_headers.json; the harness checks them)
RealTimes9 == <<63, 71, 88, 90, 93, 132, 142, 145, 156>>

NoTree == <<>>
\* parent vectors: header i is a child of header T[i]; 0 is the stored root
T_2_3    == <<0, 1, 0, 3, 4>>                   \* two branches from the root, lengths 2 and 3
T_3_3    == <<0, 1, 2, 0, 4, 5>>
T_4_3    == <<0, 1, 2, 3, 0, 5, 6>>
T_4_4    == <<0, 1, 2, 3, 0, 5, 6, 7>>
T_2_2_2  == <<0, 1, 0, 3, 0, 5>>                \* three branches from the root
T_3_2_2  == <<0, 1, 2, 0, 4, 0, 6>>
T_3_3_2  == <<0, 1, 2, 0, 4, 5, 0, 7>>
T_3_3_3  == <<0, 1, 2, 0, 4, 5, 0, 7, 8>>
T_nested == <<0, 1, 2, 3, 2, 5, 1>>             \* trunk 1-2; 3-4 and 5-6 fork at 2; 7 forks at 1
T_comb   == <<0, 1, 2, 3, 0, 1, 2, 3>>          \* a side block at every height of a chain of 4
T_comb3  == <<0, 1, 2, 0, 1, 2>>                \* a side block at every height of a chain of 3
=============================================================================
