package harness

// Family "routing" (property C12): rule-set syntax and authorisation of the 26-routing keeper.
//
// Abstract events (spec/RoutingMC.tla); strings are arrays of one-character strings:
//   {"act":"SetRules","rules":[[c,...],...]}   a rule list, installed through the real MsgServer
//   {"act":"Auth","ts":[[[c..],[c..],[c..]],...]}  a batch of (source, destination, port) queries
// This file contains no oracle: it joins the characters, calls the real code and logs what it answered.

import (
	"crypto/sha256"
	"encoding/hex"
	"encoding/json"
	"strings"
	"testing"

	authtypes "github.com/cosmos/cosmos-sdk/x/auth/types"
	govtypes "github.com/cosmos/cosmos-sdk/x/gov/types"

	host "github.com/bianjieai/tibc-go/modules/tibc/core/24-host"
	routingtypes "github.com/bianjieai/tibc-go/modules/tibc/core/26-routing/types"
	tibckeeper "github.com/bianjieai/tibc-go/modules/tibc/core/keeper"
)

type routingEv struct {
	Act   string       `json:"act"`
	Rules [][]string   `json:"rules"`
	Ts    [][][]string `json:"ts"`
}

type routingSt struct {
	Rules [][]string `json:"rules"` // stored rules, each as a sequence of characters
	Found bool       `json:"found"` // a rule list has ever been stored
}

type routingRec struct {
	Tr   int       `json:"tr"`
	I    int       `json:"i"`
	Ev   routingEv `json:"ev"`
	Code uint32    `json:"code"` // 0 = the request took effect; 1 = MsgServer refused; 2 = ValidateBasic refused; 3 = both refused
	Vb   uint32    `json:"vb"`   // 0 = MsgSetRoutingRules.ValidateBasic (the transaction-level check) passed
	Srv  uint32    `json:"srv"`  // 0 = MsgServer.SetRoutingRules (authority check + keeper) passed
	Log  string    `json:"log"`
	Ans  []bool    `json:"ans"` // Auth: answer of RoutingKeeper.Authenticate per query
	St   routingSt `json:"st"`
	Dig  string    `json:"dig"` // digest of the raw value under the routing-rules key
}

func chars(s string) []string {
	out := []string{}
	for _, r := range s {
		out = append(out, string(r))
	}
	return out
}

func init() { Families["routing"] = runRouting }

func runRouting(t *testing.T, inp *Input, tr int, beh []json.RawMessage, out func(interface{})) {
	nt := NewNet(t, 1, nil)
	c := nt.Chains["A"]
	app := c.App
	srv := tibckeeper.NewMsgServerImpl(*app.TIBCKeeper)
	authority := authtypes.NewModuleAddress(govtypes.ModuleName).String()

	project := func(rec *routingRec) {
		ctx := c.GetContext()
		rules, found := app.TIBCKeeper.RoutingKeeper.GetRoutingRules(ctx)
		rec.St = routingSt{Rules: [][]string{}, Found: found}
		for _, ru := range rules {
			rec.St.Rules = append(rec.St.Rules, chars(ru))
		}
		raw := ctx.KVStore(app.GetKey(host.StoreKey)).Get(host.RoutingRulesKey())
		h := sha256.Sum256(raw)
		rec.Dig = hex.EncodeToString(h[:])[:16]
		if raw == nil {
			rec.Dig = "absent"
		}
		if rec.Ans == nil {
			rec.Ans = []bool{}
		}
		if rec.Ev.Rules == nil {
			rec.Ev.Rules = [][]string{}
		}
		if rec.Ev.Ts == nil {
			rec.Ev.Ts = [][][]string{}
		}
	}

	i := 0
	emit := func(rec *routingRec) {
		rec.Tr, rec.I = tr, i
		i++
		project(rec)
		out(rec)
	}
	emit(&routingRec{Ev: routingEv{Act: "Reset"}})

	for _, raw := range beh {
		var ev routingEv
		if err := json.Unmarshal(raw, &ev); err != nil {
			t.Fatalf("bad routing event %s: %v", raw, err)
		}
		rec := &routingRec{Ev: ev}
		switch ev.Act {
		case "SetRules":
			rules := []string{}
			for _, r := range ev.Rules {
				rules = append(rules, strings.Join(r, ""))
			}
			msg := &routingtypes.MsgSetRoutingRules{Title: "routing rules", Description: "set by the conformance harness", Rules: rules, Authority: authority}
			// the message as it arrives over the wire
			bz, err := app.AppCodec().Marshal(msg)
			if err != nil {
				t.Fatalf("marshal: %v", err)
			}
			var m2 routingtypes.MsgSetRoutingRules
			if err := app.AppCodec().Unmarshal(bz, &m2); err != nil {
				rec.Vb, rec.Srv, rec.Code, rec.Log = 1, 1, 3, "decode: "+err.Error()
				break
			}
			if err := m2.ValidateBasic(); err != nil {
				rec.Vb = 1
				rec.Log = "validate_basic: " + err.Error()
			}
			ctx := c.GetContext()
			cctx, write := ctx.CacheContext()
			if _, err := srv.SetRoutingRules(cctx, &m2); err != nil {
				rec.Srv = 1
				rec.Log += " msg_server: " + err.Error()
			}
			rec.Code = rec.Srv + 2*rec.Vb
			if rec.Code == 0 {
				write()
			}
			if len(rec.Log) > 200 {
				rec.Log = rec.Log[:200]
			}
		case "Auth":
			ctx := c.GetContext()
			for _, q := range ev.Ts {
				if len(q) != 3 {
					t.Fatalf("query is not a triple: %v", q)
				}
				rec.Ans = append(rec.Ans, app.TIBCKeeper.RoutingKeeper.Authenticate(ctx,
					strings.Join(q[0], ""), strings.Join(q[1], ""), strings.Join(q[2], "")))
			}
		default:
			t.Fatalf("unknown routing event %q", ev.Act)
		}
		emit(rec)
	}
}
