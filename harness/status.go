package harness

import (
	"encoding/json"
	"testing"
	"time"

	clienttypes "github.com/bianjieai/tibc-go/modules/tibc/core/02-client/types"
	commitmenttypes "github.com/bianjieai/tibc-go/modules/tibc/core/23-commitment/types"
	"github.com/bianjieai/tibc-go/modules/tibc/core/exported"
	tmtypes "github.com/bianjieai/tibc-go/modules/tibc/light-clients/07-tendermint/types"
	bsctypes "github.com/bianjieai/tibc-go/modules/tibc/light-clients/08-bsc/types"
	ethtypes "github.com/bianjieai/tibc-go/modules/tibc/light-clients/09-eth/types"
	tibctesting "github.com/bianjieai/tibc-go/modules/tibc/testing"
)

type statusEvent struct {
	Act string `json:"act"`
	C   string `json:"c"`
	T   string `json:"t"`
	P   int64  `json:"p"`
	Age int64  `json:"age"`
	Sub int64  `json:"sub"`
	Lag int64  `json:"lag"`
}

type statusRec struct {
	Tr     int          `json:"tr"`
	I      int          `json:"i"`
	Ev     *statusEvent `json:"ev"`
	Code   uint32       `json:"code"`
	Status string       `json:"status"`
}

// runStatus calls the real Status() of a Tendermint, BSC or ETH client state whose newest consensus state is
// `age` seconds (plus `sub` nanoseconds) older than the block time, with trusting period p seconds.
func runStatus(t *testing.T, inp *Input, tr int, beh []json.RawMessage, out func(interface{})) {
	coord := NewDetCoordinator(t, 1)
	chain := coord.GetChain(tibctesting.GetChainID(0))
	out(&statusRec{Tr: tr, I: 0, Ev: &statusEvent{Act: "Reset"}, Status: ""})
	latest := time.Date(2021, 6, 1, 12, 0, 0, 0, time.UTC) // a whole second
	height := clienttypes.NewHeight(0, 100)
	for i, raw := range beh {
		var ev statusEvent
		if err := json.Unmarshal(raw, &ev); err != nil {
			t.Fatal(err)
		}
		ctx, _ := chain.GetContext().CacheContext()
		now := latest.Add(time.Duration(ev.Age)*time.Second + time.Duration(ev.Sub))
		ctx = ctx.WithBlockTime(now)
		ck := chain.App.TIBCKeeper.ClientKeeper
		name := "status" + ev.T
		var cs exported.ClientState
		switch ev.T {
		case "tm":
			cs = tmtypes.NewClientState("x-1", tmtypes.DefaultTrustLevel, time.Duration(ev.P)*time.Second, time.Duration(ev.P)*time.Second*2+time.Hour,
				10*time.Second, height, commitmenttypes.GetSDKSpecs(), tibctesting.Prefix, 0)
			ck.SetClientConsensusState(ctx, name, height, &tmtypes.ConsensusState{Timestamp: latest, Root: commitmenttypes.NewMerkleRoot([]byte("root")), NextValidatorsHash: make([]byte, 32)})
			// the moment this chain stored the state (metadata written by every real update)
			tmtypes.SetProcessedTime(ck.ClientStore(ctx, name), height, uint64(latest.Add(time.Duration(ev.Lag)*time.Second).UnixNano()))
			tmtypes.SetIterationKey(ck.ClientStore(ctx, name), height)
		case "bsc":
			cs = &bsctypes.ClientState{Header: bsctypes.Header{Height: height}, TrustingPeriod: uint64(ev.P)}
			ck.SetClientConsensusState(ctx, name, height, &bsctypes.ConsensusState{Timestamp: uint64(latest.Unix()), Number: height, Root: []byte("root")})
		case "eth":
			cs = &ethtypes.ClientState{Header: ethtypes.Header{Height: height}, TrustingPeriod: uint64(ev.P)}
			ck.SetClientConsensusState(ctx, name, height, &ethtypes.ConsensusState{Timestamp: uint64(latest.Unix()), Number: height, Root: []byte("root")})
		default:
			t.Fatalf("unknown client type %q", ev.T)
		}
		st := cs.Status(ctx, ck.ClientStore(ctx, name), chain.App.AppCodec())
		out(&statusRec{Tr: tr, I: i + 1, Ev: &ev, Status: string(st)})
	}
}

func init() { Families["status"] = runStatus }
