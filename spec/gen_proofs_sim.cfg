\* sampling (quick tier): tlc -simulate picks behaviours of the full product at random
CONSTANTS
  Heights = {1,2,3}
  TypesU = {"tm","bsc","eth"}
  Hists <- HistsAB
  KeysU <- KeysU6
  Vals = {1,2,3}
  Latests = {2,3}
  RootSets <- RootSets2
  DelaysTM = {0,1,2}
  DelaysBSC = {1,2}
  DelaysETH = {0,1,2}
  Nows = {3,4,5}
  VariantsU = {"genuine","relabelled","otherStore","truncated","reordered","valueSwapped","empty","garbage","shadowKey"}
  Modes = {"full"}
  LOG = TRUE
  SimDepth = 1
INIT InitGen
NEXT NextSim
INVARIANT PrintBehaviour
CHECK_DEADLOCK FALSE
