------------------------------ MODULE TibcCoreMC ------------------------------
(***************************************************************************)
(* Closed system for TibcCore: users that send through the mock port, the   *)
(* source chain's clean requests, governance rule changes, the passing of   *)
(* time, and a relayer that may submit ANY message it can build: genuine    *)
(* ones (in any order, any number of times) and every single-field          *)
(* alteration of a genuine message, with any proof it could really obtain.  *)
(* Used three ways: exhaustive design check (Next), behaviour generation    *)
(* (NextSim under -simulate, printing evlog as JSON), and - through         *)
(* TibcCore!StepRes - by the trace specification.                           *)
(***************************************************************************)
EXTENDS TibcCore, Json

CONSTANTS Links,        \* [Chains -> SUBSET Chains] initial clients
          RuleSets,     \* rule sets governance may install
          Senders,      \* chains whose users send packets
          Dests,        \* destinations users send to
          UserRelays,   \* relay-chain values users choose ("" = direct)
          UserPorts,    \* ports users send on
          UserData,     \* payloads users send
          RuleChains,   \* chains whose routing rules governance changes
          AdvOn,        \* TRUE: the relayer also submits altered messages
          ExpirePairs,  \* {<<c, x>>}: clients (of x on c) that may expire (short trusting period in the harness)
          ExportOn,     \* TRUE: chains are exported and re-imported at arbitrary points (C16)
          LOG,          \* TRUE: record events in evlog (generation)
          SimDepth,     \* print evlog when it reaches this length (generation)
          SimMode       \* "mixed": everything; "replay": honest traffic, cleans and replays of every old message;
                        \* "long": one busy channel with many sequences, out-of-order acknowledgements and cleans

Relays == Chains \cup {""}
Kinds  == {"commit", "ack", "clean"}
Modes  == {"best", "latest", "early", "future", "garbage", "trunc"}

Init ==
  /\ cs = [c \in Chains |-> EmptyChain(Links[c])]
  /\ ever = [c \in Chains |-> [cm |-> {}, ak |-> {}, cp |-> {}]]
  /\ sent = {} /\ delivered = {} /\ acked = {} /\ cb1 = {} /\ cb2 = {}
  /\ evlog = <<>>
  /\ frozen = [c \in Chains |-> {}]

Pf(x, kind, s, d, n, mode) == [chain |-> x, kind |-> kind, s |-> s, d |-> d, n |-> n, mode |-> mode]
Ev(act, c) == [act |-> act, c |-> c]

-------------------------------------------------------------------------------
(* user / governance / time events *)
SendEvents ==
  {[act |-> "Send", c |-> c,
    pkt |-> [src |-> c, dst |-> d, relay |-> rl, port |-> po, seq |-> NsR(cs[c], c, d), data |-> da]] :
     c \in Senders, d \in Dests, rl \in UserRelays, po \in UserPorts, da \in UserData}
BadSendEvents ==   \* sends that must fail: wrong sequence, empty data, unknown destination, foreign source
  {[act |-> "Send", c |-> c,
    pkt |-> [src |-> c, dst |-> d, relay |-> "", port |-> "mock", seq |-> NsR(cs[c], c, d) + b[1], data |-> b[2]]] :
     c \in Senders, d \in Dests, b \in {<<1, "d1">>, <<0, "">>}}
  \cup UNION {{[act |-> "Send", c |-> c,
    pkt |-> [src |-> b[1], dst |-> b[2], relay |-> b[3], port |-> "mock", seq |-> 1, data |-> "d1"]] :
     b \in {<<c, "Z", "">>, <<"Z", c, "">>, <<c, "Z", "Z">>}} : c \in Senders}
  \cup {[act |-> "Send", c |-> c,     \* unknown relay chain although the destination is directly connected
    pkt |-> [src |-> c, dst |-> d, relay |-> "Z", port |-> "mock", seq |-> NsR(cs[c], c, d), data |-> "d1"]] :
     c \in Senders, d \in Dests}
CleanEvents ==
  {[act |-> "Clean", c |-> c, cp |-> [src |-> c, dst |-> d, relay |-> rl, seq |-> n]] :
     c \in Senders, d \in Dests, rl \in UserRelays, n \in 1..MaxSeq}
RuleEvents == {[act |-> "SetRules", c |-> c, rules |-> rs] : c \in RuleChains, rs \in RuleSets}
ExpireEvents == {[act |-> "Expire", c |-> px[1], x |-> px[2]] : px \in {q \in ExpirePairs : q[2] \notin cs[q[1]].ex}}
ExportEvents == IF ExportOn THEN {[act |-> "ExportImport", c |-> c] : c \in Chains}
                                  \cup {[act |-> "RegisterRelayer", c |-> c, x |-> x] : c \in Chains, x \in Names}   \* also for chains without client
                ELSE {}

-------------------------------------------------------------------------------
(* genuine relayer messages *)
RecvHops(p) == IF p.relay = "" THEN {<<p.dst, p.src>>} ELSE {<<p.relay, p.src>>, <<p.dst, p.relay>>}
AckHops(p)  == IF p.relay = "" THEN {<<p.src, p.dst>>} ELSE {<<p.relay, p.dst>>, <<p.src, p.relay>>}

GenRecv == UNION {{[act |-> "Recv", c |-> h[1], pkt |-> p,
                     proof |-> Pf(h[2], "commit", p.src, p.dst, p.seq, "best")] :
                       h \in {g \in RecvHops(p) : g[1] \in Chains /\ g[2] \in Chains}} : p \in sent}

AcksAt(x, p) == {y[4] : y \in {z \in ever[x].ak : z[1] = p.src /\ z[2] = p.dst /\ z[3] = p.seq}}
GenAck == UNION {UNION {{[act |-> "Ack", c |-> h[1], pkt |-> p, ack |-> a,
                           proof |-> Pf(h[2], "ack", p.src, p.dst, p.seq, "best")] : a \in AcksAt(h[2], p)} :
                       h \in {g \in AckHops(p) : g[1] \in Chains /\ g[2] \in Chains}} : p \in sent}

\* clean points announced by a source (or relay) chain, delivered to relay / destination
CleanHops(s, d, rl) == IF rl = "" THEN {<<d, s>>} ELSE {<<rl, s>>, <<d, rl>>}
GenRecvClean ==
  UNION {UNION {{[act |-> "RecvClean", c |-> h[1], cp |-> [src |-> y[1], dst |-> y[2], relay |-> rl, seq |-> y[4]],
                  proof |-> Pf(h[2], "clean", y[1], y[2], 0, "best")] :
                    h \in {g \in CleanHops(y[1], y[2], rl) : g[1] \in Chains /\ g[2] \in Chains /\ g[2] = x}} :
                 rl \in UserRelays, y \in ever[x].cp} : x \in Chains}

Genuine == GenRecv \cup GenAck \cup GenRecvClean

-------------------------------------------------------------------------------
(* alterations: exactly one aspect of a genuine message is changed *)
\* Alias(x): another spelling of the chain name x - the harness writes it with one character percent-encoded
\* ("testchain0" -> "testchain%30").  No chain has that name, so to the specification it is simply an unknown name.
Alias(x) == x \o "q"
AltPkt(p) ==
     {[p EXCEPT !.src = Alias(p.src)], [p EXCEPT !.dst = Alias(p.dst)]}
\cup {[p EXCEPT !.data = v]  : v \in Data \ {p.data}}
\cup {[p EXCEPT !.seq = v]   : v \in (1..(MaxSeq + 1)) \ {p.seq}}
\cup {[p EXCEPT !.src = v]   : v \in Names \ {p.src}}
\cup {[p EXCEPT !.dst = v]   : v \in Names \ {p.dst}}
\cup {[p EXCEPT !.port = v]  : v \in Ports \ {p.port}}
\cup {[p EXCEPT !.relay = v] : v \in (Names \cup {""}) \ {p.relay}}

AltProof(f) ==
     {[f EXCEPT !.chain = v] : v \in Chains \ {f.chain}}
\cup {[f EXCEPT !.kind = v]  : v \in Kinds \ {f.kind}}
\cup {[f EXCEPT !.n = v]     : v \in (0..(MaxSeq + 1)) \ {f.n}}
\cup {[f EXCEPT !.mode = v]  : v \in Modes \ {f.mode}}

Rekey(f, p) == [f EXCEPT !.s = p.src, !.d = p.dst, !.n = p.seq]

AltPktMsg(m) == {[m EXCEPT !.pkt = q, !.tag = "pkt"] : q \in AltPkt(m.pkt)}
           \cup {[m EXCEPT !.pkt = q, !.proof = Rekey(m.proof, q), !.tag = "pkt+key"] : q \in AltPkt(m.pkt)}
AltMsg(m0) ==
  LET m == [act |-> m0.act, c |-> m0.c, tag |-> "gen"] @@ m0 IN
  CASE m.act = "Recv" -> AltPktMsg(m) \cup {[m EXCEPT !.proof = f, !.tag = "proof"] : f \in AltProof(m.proof)}
                                        \cup {[m EXCEPT !.c = v, !.tag = "chain"] : v \in Chains \ {m.c}}
    [] m.act = "Ack"  -> AltPktMsg(m) \cup {[m EXCEPT !.proof = f, !.tag = "proof"] : f \in AltProof(m.proof)}
                                        \cup {[m EXCEPT !.c = v, !.tag = "chain"] : v \in Chains \ {m.c}}
                                        \cup {[m EXCEPT !.ack = v, !.tag = "ack"] : v \in AckTags \ {m.ack}}
    [] m.act = "RecvClean" ->
          {[m EXCEPT !.cp.seq = v, !.tag = "seq"] : v \in (1..(MaxSeq + 1)) \ {m.cp.seq}}
     \cup {[m EXCEPT !.cp.relay = v, !.tag = "relay"] : v \in Relays \ {m.cp.relay}}
     \cup {[m EXCEPT !.cp.src = v, !.tag = "src"] : v \in (Chains \cup {Alias(m.cp.src)}) \ {m.cp.src}}
     \cup {[m EXCEPT !.proof = f, !.tag = "proof"] : f \in AltProof(m.proof)}
     \cup {[m EXCEPT !.c = v, !.tag = "chain"] : v \in Chains \ {m.c}}

\* acknowledgements that were never written, claimed anyway
ForgedAck == UNION {UNION {{[act |-> "Ack", c |-> h[1], pkt |-> p, ack |-> a, tag |-> "noack",
                              proof |-> Pf(h[2], "ack", p.src, p.dst, p.seq, "best")] : a \in AckTags \ AcksAt(h[2], p)} :
                       h \in {g \in AckHops(p) : g[1] \in Chains /\ g[2] \in Chains}} : p \in sent}
\* clean points that were never announced
ForgedClean == {[act |-> "RecvClean", c |-> c, cp |-> [src |-> s, dst |-> d, relay |-> "", seq |-> n], tag |-> "noclean",
                 proof |-> Pf(s, "clean", s, d, 0, "best")] :
                   c \in Chains, s \in Senders, d \in Dests, n \in 1..MaxSeq}

\* plain (proof-less) clean requests that name another chain as the source, submitted on a chain that is not the source:
\* "elsewhere it is accepted only with proof of the source's clean point".  The code ignores the source field of
\* MsgCleanPacket (CleanRes uses the executing chain), so these are requests for the executing chain's own channel.
ForeignClean == {e \in {[act |-> "Clean", c |-> c, cp |-> [src |-> s, dst |-> d, relay |-> rl, seq |-> n], tag |-> "foreignclean"] :
                          c \in Chains, s \in Chains, d \in Chains, rl \in Relays, n \in 1..MaxSeq} : e.cp.src # e.c}
\* ... those that would pass the window test if the named source's channel were consulted
TemptingForeignClean == {e \in ForeignClean : CleanValid(cs[e.c], e.cp.src, e.cp.dst, e.cp.seq)}

Adversarial == (UNION {AltMsg(m) : m \in Genuine}) \cup ForgedAck \cup ForgedClean \cup ForeignClean

-------------------------------------------------------------------------------
Log(e) == evlog' = IF LOG THEN Append(evlog, e) ELSE evlog

UserEvents == {e \in SendEvents : e.pkt.seq <= MaxSeq} \cup BadSendEvents \cup CleanEvents \cup RuleEvents \cup ExpireEvents \cup ExportEvents

Next ==
  \/ \E e \in UserEvents : Do(e) /\ Log(e)
  \/ \E e \in Genuine : Do(e) /\ Log(e)
  \/ AdvOn /\ \E e \in Adversarial : Do(e) /\ Log(e)

Spec == Init /\ [][Next]_vars

(* Liveness (design level only): with a fair honest relayer every packet that was sent is eventually settled on its   *)
(* source - acknowledged (success or error acknowledgement, also through the relay chain) and its commitment dropped. *)
HonestStep == \E e \in {x \in Genuine : StepRes(x).ok} : Do(e) /\ Log(e)
FairSpec == Init /\ [][Next]_vars /\ WF_vars(HonestStep)
Settled(p) == ~HasCm(cs[p.src], p.src, p.dst, p.seq)
Live_Settled == \A c \in Senders, d \in Dests, n \in 1..MaxSeq :
                  (\E p \in sent : p.src = c /\ p.dst = d /\ p.seq = n) ~> (\A p \in sent : (p.src = c /\ p.dst = d /\ p.seq = n) => Settled(p))

-------------------------------------------------------------------------------
(* Generation: one randomly chosen event per step, weighted towards progress.  RandomElement is    *)
(* evaluated while TLC's simulator builds the successors of the current state.                      *)
Useful(S) == {e \in S : StepRes(e).ok}
PickOr(S, alt) == IF S = {} THEN alt ELSE RandomElement(S)

\* port / relay-chain edits of a genuine packet message (C13), everything else as sent
FieldEdits(m) == IF m.act \in {"Recv", "Ack"}
                 THEN {x \in AltPktMsg([act |-> m.act, c |-> m.c, tag |-> "gen"] @@ m) :
                         x.tag = "pkt" /\ x.pkt.src = m.pkt.src /\ x.pkt.dst = m.pkt.dst /\ x.pkt.seq = m.pkt.seq /\ x.pkt.data = m.pkt.data}
                 ELSE {}
AdvPick ==   \* one altered / forged message, chosen so that no family swamps the others
  LET k == RandomElement(1..10)
      g == IF Genuine # {} THEN RandomElement(Genuine) ELSE [act |-> "none"] IN
  IF k <= 2 /\ Genuine # {} /\ FieldEdits(g) # {} THEN RandomElement(FieldEdits(g))
  ELSE IF k <= 7 /\ Genuine # {} THEN RandomElement(AltMsg(g))
  ELSE IF k <= 9 /\ ForgedAck # {} THEN RandomElement(ForgedAck)
  ELSE IF RandomElement(1..2) = 1 THEN RandomElement(ForgedClean)
  ELSE PickOr(TemptingForeignClean, RandomElement(ForeignClean))

SimEvent ==
  LET roll    == RandomElement(1..20)
      sends   == {e \in SendEvents : e.pkt.seq <= MaxSeq /\ e.pkt.dst # e.c}
      anySend == PickOr(sends, RandomElement(BadSendEvents))
      honest  == PickOr(Useful(Genuine), anySend)
      okClean == PickOr(Useful(CleanEvents), PickOr(CleanEvents, anySend))
  IN  IF SimMode = "replay"
      THEN (IF roll <= 3 THEN anySend
            ELSE IF roll <= 10 THEN honest
            ELSE IF roll <= 13 THEN okClean
            ELSE IF roll <= 14 THEN PickOr(RuleEvents \cup ExportEvents, honest)
            ELSE PickOr(Genuine, anySend))                          \* any message ever genuine, again
      ELSE IF SimMode = "long"
      THEN (IF roll <= 7 THEN anySend
            ELSE IF roll <= 15 THEN honest
            ELSE IF roll <= 18 THEN PickOr(CleanEvents, anySend)
            ELSE PickOr(Genuine, anySend))
      ELSE IF roll <= 3 THEN anySend
      ELSE IF roll <= 9 THEN honest
      ELSE IF roll <= 10 THEN PickOr(Genuine, anySend)              \* replays of processed messages
      ELSE IF roll <= 11 THEN okClean
      ELSE IF roll <= 12 THEN RandomElement(CleanEvents \cup BadSendEvents \cup SendEvents)
      ELSE IF roll <= 13 THEN PickOr(RuleEvents \cup ExportEvents, anySend)
      ELSE IF roll <= 14 THEN PickOr(ExpireEvents \cup ExportEvents, honest)
      ELSE IF AdvOn THEN AdvPick ELSE honest

NextSim == \E e \in {SimEvent} : Do(e) /\ Log(e)

\* prints one behaviour per line when the simulator reaches the requested depth
PrintBehaviour == (Len(evlog) = SimDepth) => PrintT(<<"BEH", ToJson(evlog)>>)
=============================================================================
