CONSTANTS
  Types = {"tm","bsc","eth"}
  Periods = {1, 100, 1209600}
  AgeOffsets = {1, 2, 3}
  BigAges = {1000000}
  Subs = {0, 1, 500000000, 999999999}
  SimDepth = 216
INIT Init
NEXT NextSim
INVARIANT PrintBehaviour
CHECK_DEADLOCK FALSE
