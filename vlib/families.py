"""Registry: which pipeline decides which property."""
from . import tracefam as T

T3 = [["A", "B"], ["B", "C"], ["A", "C"]]

CORE = dict(
    name="core",
    design=[
        dict(role="intended", module="MCCore.tla", cfg="core_intended.cfg",
             overrides_quick={"MaxSeq": "2"}, overrides_thorough={"MaxSeq": "3"}),
        dict(role="as-coded", module="MCCore.tla", cfg="core_ascoded.cfg", extra=["-continue"],
             overrides_quick={"MaxSeq": "1"}, overrides_thorough={"MaxSeq": "1"}, timeout_thorough=900),
        # FairSpec = Spec + weak fairness of the honest relayer; Live_Settled: every packet sent is eventually settled on its source
        dict(role="liveness", module="MCCore.tla", cfg="core_live.cfg",
             overrides_quick={"MaxSeq": "1"}, overrides_thorough={"MaxSeq": "2"}, timeout_thorough=1800),
    ],
    gen=dict(module="MCCore.tla", cfgs=[("gen_core.cfg", 0.6), ("gen_core_replay.cfg", 0.3), ("gen_core_long.cfg", 0.1)],
             quick=(64, 40), thorough=(800, 60), depth_factor={"gen_core_long.cfg": 2.5}),
    trace=dict(module="TraceCore.tla", cfg="trace_core.cfg"),
    harness=dict(family="core", chains=3, links=T3),
    assumptions=[
        "TLA+ model: proofs are abstracted to (chain, key, value, height class); Merkle proofs cannot be forged",
        "real code is exercised only on the behaviours replayed (TLC simulation of the as-coded model + fixed regression behaviours)",
        "cosmos-sdk BaseApp atomicity, IAVL/ICS-23, cometbft light client, TLC and the harness projection are trusted",
    ],
)


def core_check(prop, tier, seed, replay):
    """Core properties are evaluated on the traces of the core family and of the application family (its packets
    go through the same packet layer; C02 / C09 / C19 also have token-level formulas there); C19 on every family."""
    if replay:
        import json as _json
        fam = _json.load(open(replay)).get("family", "core")
        return T.replay(prop, _family_by_name(fam), replay)
    from . import fam_apps as A
    pairs = [(CORE, T.run_family(CORE, tier, seed)), (A.FAM, T.run_family(A.FAM, tier, seed))]
    if prop in ("C01", "C13"):
        from . import fam_more as M
        pairs += [(M.EXPIRY_RELAY, T.run_family(M.EXPIRY_RELAY, tier, seed))]
    if prop in ("C11", "C02", "C19"):
        from . import fam_more as M
        pairs += [(M.SPARSE, T.run_family(M.SPARSE, tier, seed))]
    if prop == "C19":
        from . import fam_more as M
        pairs += [(A.FAM_BIG, T.run_family(A.FAM_BIG, tier, seed)), (M.GENESIS, T.run_family(M.GENESIS, tier, seed)),
                  (M.EXPIRY, T.run_family(M.EXPIRY, tier, seed))]
    return T.verdict(prop, CORE, tier, seed, T.merge_runs(pairs))


def _family_by_name(name):
    from . import fam_apps as A
    from . import fam_more as M
    for f in (CORE, A.FAM, A.FAM_BIG, M.GENESIS, M.GENESIS_APPS, M.EXPIRY, M.EXPIRY_RELAY, M.SPARSE):
        if f["name"] == name:
            return f
    return CORE


CHECKS = {}
for _p in ("C01", "C02", "C03", "C09", "C10", "C11", "C13", "C19"):
    CHECKS[_p] = core_check

# families living in their own files: vlib/fam_<name>.py exporting FAM, PROPS and check(prop, tier, seed, replay)
import glob as _glob
import importlib as _importlib
import os as _os

for _f in sorted(_glob.glob(_os.path.join(_os.path.dirname(__file__), "fam_*.py"))):
    _m = _importlib.import_module("vlib." + _os.path.basename(_f)[:-3])
    for _p in getattr(_m, "PROPS", []):
        CHECKS[_p] = _m.check
