------------------------------ MODULE TraceEth ------------------------------
(***************************************************************************)
(* Trace specification for the ETH client family.  trace.ndjson holds one   *)
(* record per step of a behaviour executed on the REAL 09-eth client        *)
(* (harness/eth.go): the abstract event, the result code of the             *)
(* MsgUpdateClient transaction, and the projection of the client's real      *)
(* store (stored headers, consensus state per height, latest header).        *)
(*                                                                          *)
(* bad (property C18):                                                      *)
(*   the recorded decision differs from Eth!Accept, either way;              *)
(*   after an accepted header the exposed consensus states are not the       *)
(*   ancestor chain of the latest header / the header is not the latest;     *)
(*   a refused header changed the store.                                     *)
(* div: the recorded step differs from Eth!StepRes under the deviation flag  *)
(*   that describes the current tree, where C18 is not at stake.             *)
(***************************************************************************)
EXTENDS Eth, Json

TraceLog == ndJsonDeserialize("trace.ndjson")

VARIABLES l, bad, div, nsteps
tvars == <<vars, l, bad, div, nsteps>>

SetOf(t) == {t[i] : i \in DOMAIN t}
ConvClient(st) == [index |-> {x[1] : x \in SetOf(st.index)},
                   cons  |-> {<<q[1], q[2]>> : q \in SetOf(st.cons)},
                   head  |-> st.head,
                   rm    |-> {<<x[1], x[2]>> : x \in SetOf(st.rm)}]

Lbl(f, detail) == [p |-> "C18", f |-> f, d |-> detail]
DivL(f, detail) == [f |-> f, d |-> detail]
If(cond, lbl) == IF cond THEN {lbl} ELSE {}

\* what the store says about each header agrees with the header (number in the index key; timestamp,
\* number and revision of the consensus state)
FieldsOK(h, st) ==
  /\ \A x \in SetOf(st.index) : x[1] \in DOMAIN h /\ x[2] = h[x[1]].num
  /\ \A q \in SetOf(st.cons)  : q[2] \in DOMAIN h /\ q[3] = h[q[2]].time /\ q[4] = q[1] /\ q[5] = 0

\* a rule-valid header is described by where it attaches (extends the latest header / forks off d blocks below it);
\* when the model of the current tree accepts it as well (so a known deviation does not explain a refusal), also by the
\* boundary values it carries (timestamp exactly at the 15 s horizon, gas limit at the edge of the bound)
ForkTag(h, c, id) ==
  (IF h[id].parent = c.head THEN "extend" ELSE "fork:" \o ToString(ForkDepth(h, c, id)))
  \o (IF SubmitRes(h, c, now, id).ok
      THEN (IF h[id].time = now + Drift THEN "+time_at_horizon" ELSE "")
           \o (IF h[id].gl \in {"up_max", "down_max"} THEN "+gas_limit:" \o h[id].gl ELSE "")
      ELSE "")

Violations(e, okR, rec, c2) ==
  IF e.act = "Export"   \* C16 for this client type: classes of store keys that differ after genesis export + re-import
  THEN {[p |-> "C16", f |-> "state_differs_after_export_import", d |-> rec.info.diff[i]] : i \in DOMAIN rec.info.diff}
       \cup If(c2 # cl, Lbl("store_changed_without_update", e.act))
  ELSE IF e.act # "Submit" THEN If(c2 # cl, Lbl("store_changed_without_update", e.act))
  ELSE
  LET id   == e.id
      x    == hs[id]
      rule == Accept(hs, cl, now, id, x)
      why  == Why(hs, cl, now, id, x)
      fork == IF rule THEN ForkTag(hs, cl, id) ELSE why
  IN If(okR /\ ~rule, Lbl("accepted_but_rule_rejects", why))
\cup If(~okR /\ rule, Lbl("rejected_but_rule_accepts", fork))
\cup If(okR /\ (c2.index # cl.index \cup {id} \/ c2.head # id), Lbl("accepted_header_not_stored_as_latest", fork))
\cup If(okR /\ ~OneChain(hs, c2), Lbl("exposed_states_not_one_chain", IF rule THEN fork \o ":" \o Dir(hs, cl, id) ELSE why))
\cup If(okR /\ ~FieldsOK(hs, rec.st), Lbl("exposed_state_fields_wrong", fork))
\cup If(~okR /\ c2 # cl, Lbl("rejected_but_changed", fork))

Differs(a, b) == (IF a.index # b.index THEN "index " ELSE "") \o (IF a.head # b.head THEN "head " ELSE "") \o
                 (IF a.cons # b.cons THEN "cons " ELSE "") \o (IF a.rm # b.rm THEN "rm " ELSE "")

Divergence(e, okR, rec, c2) ==
  IF e.act # "Submit" THEN {} ELSE
  LET pred == SubmitRes(hs, cl, now, e.id) IN
     If(pred.ok # okR /\ pred.rule = okR,
        DivL("outcome", IF pred.ok THEN "model of the tree accepts, code rejects" ELSE "model of the tree rejects, code accepts"))
\cup If(pred.ok = okR /\ okR /\ pred.cl # c2, DivL("post_state", Differs(pred.cl, c2)))
\cup If(c2.head \in DOMAIN hs /\ rec.st.latest # hs[c2.head].num, DivL("latest_height", ""))
\cup If(rec.info.bt # now, DivL("block_time", ""))
\cup If(rec.st.status # "Active", DivL("status", rec.st.status))

TraceInit ==
  /\ l = 1 /\ bad = {} /\ div = {} /\ nsteps = 0
  /\ hs = (0 :> RootHdr) /\ cl = ConvClient(TraceLog[1].st) /\ now = 0 /\ refused = {} /\ evlog = <<>>

TraceStep ==
  /\ l < Len(TraceLog)
  /\ l' = l + 1
  /\ refused' = refused /\ evlog' = evlog
  /\ LET rec == TraceLog[l + 1]
         e   == rec.ev
         c2  == ConvClient(rec.st) IN
     IF e.act = "Reset"
     THEN /\ hs' = (0 :> RootHdr) /\ cl' = c2 /\ now' = 0
          /\ nsteps' = nsteps /\ bad' = bad
          /\ div' = div \cup {[tr |-> rec.tr, i |-> rec.i, v |-> v] : v \in If(c2 # Client0 \/ rec.st.now # 0, DivL("initial_state", ""))}
     ELSE LET okR == rec.code = 0
              nx  == StepRes(hs, cl, now, e) IN
          /\ hs' = nx.hs /\ now' = nx.now
          /\ cl' = c2
          /\ nsteps' = IF e.act = "Submit" THEN nsteps + 1 ELSE nsteps
          /\ bad' = bad \cup {[tr |-> rec.tr, i |-> rec.i, v |-> v] : v \in Violations(e, okR, rec, c2)}
          /\ div' = div \cup {[tr |-> rec.tr, i |-> rec.i, v |-> v] : v \in
                                 Divergence(e, okR, rec, c2) \cup If(rec.st.now # nx.now, DivL("clock", ""))}

TraceNext == TraceStep
TraceSpec == TraceInit /\ [][TraceNext]_tvars

\* written when the whole trace has been consumed; the driver requires n = number of lines
Done == (l = Len(TraceLog)) => JsonSerialize("result.json", [n |-> l, steps |-> nsteps, bad |-> bad, div |-> div])
=============================================================================
