package harness

import (
	"crypto/sha256"
	"encoding/hex"
	"fmt"
	"sort"

	sdk "github.com/cosmos/cosmos-sdk/types"
	"github.com/cosmos/cosmos-sdk/types/query"
	"github.com/cosmos/gogoproto/proto"

	clienttypes "github.com/bianjieai/tibc-go/modules/tibc/core/02-client/types"
	packettypes "github.com/bianjieai/tibc-go/modules/tibc/core/04-packet/types"
	routingtypes "github.com/bianjieai/tibc-go/modules/tibc/core/26-routing/types"
	"github.com/bianjieai/tibc-go/simapp"
)

// QueryView is what the chain's own gRPC query servers (modules/tibc/core/keeper/grpc_query.go and the keepers behind it)
// answer about the packet layer, abstracted like the store projection. The trace specification compares it with the
// projected stores (TraceCore!QueryLayer): a relayer decides what to relay from these answers.
type QueryView struct {
	K     uint64          `json:"k"`     // sequences 1..K were asked for
	Cm    [][]interface{} `json:"cm"`    // PacketCommitments (all pages, page size 2): [s,d,n,val]
	Cm1   [][]interface{} `json:"cm1"`   // PacketCommitment for every n in 1..K that is found: [s,d,n,val]
	Ak    [][]interface{} `json:"ak"`    // PacketAcknowledgements (all pages): [s,d,n,tag]
	Ak1   [][]interface{} `json:"ak1"`   // PacketAcknowledgement for every n in 1..K that is found
	Rc    [][]interface{} `json:"rc"`    // PacketReceipt received=true: [s,d,n]
	Ur    [][]interface{} `json:"ur"`    // UnreceivedPackets asked with 1..K: [s,d,n]
	Ua    [][]interface{} `json:"ua"`    // UnreceivedAcks asked with 1..K: [s,d,n]
	Cp    [][]interface{} `json:"cp"`    // CleanPacketCommitment: [s,d,N]
	Cl    []string        `json:"cl"`    // ClientStates (all pages): chain names
	Rules [][]string      `json:"rules"` // RoutingRules
	Err   []string        `json:"err"`   // queries that failed with an error the harness does not expect
}

func maxSeqOf(cs *ChainState) uint64 {
	var k uint64 = 1
	up := func(rows [][]interface{}) {
		for _, r := range rows {
			if len(r) >= 3 {
				if v, ok := r[2].(uint64); ok && v > k {
					k = v
				}
			}
		}
	}
	up(cs.Ns)
	up(cs.Cm)
	up(cs.Rc)
	up(cs.Ak)
	up(cs.Cp)
	up(cs.Ma)
	return k + 1
}

// QueryProject asks chain x's query servers.
func (r *Runner) QueryProject(x string, cs *ChainState) *QueryView {
	n := r.N
	c := n.Chains[x]
	ctx := c.GetContext()
	k := c.App.TIBCKeeper
	q := &QueryView{K: maxSeqOf(cs), Cm: [][]interface{}{}, Cm1: [][]interface{}{}, Ak: [][]interface{}{}, Ak1: [][]interface{}{},
		Rc: [][]interface{}{}, Ur: [][]interface{}{}, Ua: [][]interface{}{}, Cp: [][]interface{}{}, Cl: []string{}, Rules: [][]string{}, Err: []string{}}
	if q.K > 12 {
		q.K = 12
	}
	seqs := []uint64{}
	for i := uint64(1); i <= q.K; i++ {
		seqs = append(seqs, i)
	}
	fail := func(name string, err error) { q.Err = append(q.Err, name+": "+printable(err.Error(), 80)) }
	for _, s := range n.Names {
		for _, d := range n.Names {
			if s == d {
				continue
			}
			rs, rd := n.Real[s], n.Real[d]
			var key []byte
			for page := 0; page < 64; page++ {
				res, err := k.PacketCommitments(ctx, &packettypes.QueryPacketCommitmentsRequest{SourceChain: rs, DestChain: rd,
					Pagination: &query.PageRequest{Key: key, Limit: 2}})
				if err != nil {
					fail("PacketCommitments", err)
					break
				}
				for _, ps := range res.Commitments {
					q.Cm = append(q.Cm, []interface{}{n.A(ps.SourceChain), n.A(ps.DestinationChain), ps.Sequence, r.hashVal(ps.Data)})
				}
				if res.Pagination == nil || len(res.Pagination.NextKey) == 0 {
					break
				}
				key = res.Pagination.NextKey
			}
			key = nil
			for page := 0; page < 64; page++ {
				res, err := k.PacketAcknowledgements(ctx, &packettypes.QueryPacketAcknowledgementsRequest{SourceChain: rs, DestChain: rd,
					Pagination: &query.PageRequest{Key: key, Limit: 2}})
				if err != nil {
					fail("PacketAcknowledgements", err)
					break
				}
				for _, ps := range res.Acknowledgements {
					q.Ak = append(q.Ak, []interface{}{n.A(ps.SourceChain), n.A(ps.DestinationChain), ps.Sequence, r.Tags.HashTag(ps.Data)})
				}
				if res.Pagination == nil || len(res.Pagination.NextKey) == 0 {
					break
				}
				key = res.Pagination.NextKey
			}
			for _, i := range seqs {
				if res, err := k.PacketCommitment(ctx, &packettypes.QueryPacketCommitmentRequest{SourceChain: rs, DestChain: rd, Sequence: i}); err == nil {
					q.Cm1 = append(q.Cm1, []interface{}{s, d, i, r.hashVal(res.Commitment)})
				}
				if res, err := k.PacketAcknowledgement(ctx, &packettypes.QueryPacketAcknowledgementRequest{SourceChain: rs, DestChain: rd, Sequence: i}); err == nil {
					q.Ak1 = append(q.Ak1, []interface{}{s, d, i, r.Tags.HashTag(res.Acknowledgement)})
				}
				if res, err := k.PacketReceipt(ctx, &packettypes.QueryPacketReceiptRequest{SourceChain: rs, DestChain: rd, Sequence: i}); err != nil {
					fail("PacketReceipt", err)
				} else if res.Received {
					q.Rc = append(q.Rc, []interface{}{s, d, i})
				}
			}
			if res, err := k.UnreceivedPackets(ctx, &packettypes.QueryUnreceivedPacketsRequest{SourceChain: rs, DestChain: rd, PacketCommitmentSequences: seqs}); err != nil {
				fail("UnreceivedPackets", err)
			} else {
				for _, i := range res.Sequences {
					q.Ur = append(q.Ur, []interface{}{s, d, i})
				}
			}
			if res, err := k.UnreceivedAcks(ctx, &packettypes.QueryUnreceivedAcksRequest{SourceChain: rs, DestChain: rd, PacketAckSequences: seqs}); err != nil {
				fail("UnreceivedAcks", err)
			} else {
				for _, i := range res.Sequences {
					q.Ua = append(q.Ua, []interface{}{s, d, i})
				}
			}
			if res, err := k.CleanPacketCommitment(ctx, &packettypes.QueryCleanPacketCommitmentRequest{SourceChain: rs, DestChain: rd}); err == nil {
				q.Cp = append(q.Cp, []interface{}{s, d, sdk.BigEndianToUint64(res.Commitment)})
			}
		}
	}
	var key []byte
	// the client store prefix also holds every consensus state and its metadata: pages are counted in raw keys
	for page := 0; page < 100000; page++ {
		res, err := k.ClientStates(ctx, &clienttypes.QueryClientStatesRequest{Pagination: &query.PageRequest{Key: key, Limit: 37}})
		if err != nil {
			fail("ClientStates", err)
			break
		}
		for _, ic := range res.ClientStates {
			q.Cl = append(q.Cl, n.A(ic.ChainName))
		}
		if res.Pagination == nil || len(res.Pagination.NextKey) == 0 {
			break
		}
		key = res.Pagination.NextKey
	}
	sort.Strings(q.Cl)
	if res, err := k.RoutingRules(ctx, &routingtypes.QueryRoutingRulesRequest{}); err == nil {
		for _, ru := range res.Rules {
			q.Rules = append(q.Rules, r.absRule(ru))
		}
	}
	return q
}

// queryDigests runs the whole TIBC query battery against app at the block described by ctx and returns one fingerprint per
// query kind (requests are the same for every app; the response bytes - or the error text - are hashed).
func queryDigests(n *Net, app *simapp.SimApp, ctx sdk.Context, clients []string) map[string]string {
	k := app.TIBCKeeper
	acc := map[string][]byte{}
	add := func(name string, m proto.Message, err error) {
		var b []byte
		if err != nil {
			b = []byte("error: " + err.Error())
		} else {
			b, _ = proto.Marshal(m)
		}
		h := sha256.Sum256(append(acc[name], b...))
		acc[name] = h[:]
	}
	seqs := []uint64{}
	for i := uint64(1); i <= 12; i++ {
		seqs = append(seqs, i)
	}
	names := append([]string{}, n.Names...)
	reals := []string{}
	for _, a := range names {
		reals = append(reals, n.Real[a])
	}
	for _, rs := range clients {
		{
			res, err := k.ClientState(ctx, &clienttypes.QueryClientStateRequest{ChainName: rs})
			add("ClientState", res, err)
		}
		{
			res, err := k.ConsensusStates(ctx, &clienttypes.QueryConsensusStatesRequest{ChainName: rs, Pagination: &query.PageRequest{Limit: 10000}})
			add("ConsensusStates", res, err)
			if err == nil {
				for _, cwh := range res.ConsensusStates {
					r1, e1 := k.ConsensusState(ctx, &clienttypes.QueryConsensusStateRequest{ChainName: rs, RevisionNumber: cwh.Height.RevisionNumber,
						RevisionHeight: cwh.Height.RevisionHeight})
					add("ConsensusState", r1, e1)
				}
			}
			r2, e2 := k.ConsensusState(ctx, &clienttypes.QueryConsensusStateRequest{ChainName: rs, LatestHeight: true})
			add("ConsensusState", r2, e2)
		}
		{
			res, err := k.Relayers(ctx, &clienttypes.QueryRelayersRequest{ChainName: rs})
			add("Relayers", res, err)
		}
	}
	for _, rs := range reals {
		for _, rd := range reals {
			if rs == rd {
				continue
			}
			{
				res, err := k.PacketCommitments(ctx, &packettypes.QueryPacketCommitmentsRequest{SourceChain: rs, DestChain: rd, Pagination: &query.PageRequest{Limit: 10000}})
				add("PacketCommitments", res, err)
			}
			{
				res, err := k.PacketAcknowledgements(ctx, &packettypes.QueryPacketAcknowledgementsRequest{SourceChain: rs, DestChain: rd, Pagination: &query.PageRequest{Limit: 10000}})
				add("PacketAcknowledgements", res, err)
			}
			for _, i := range seqs {
				r1, e1 := k.PacketCommitment(ctx, &packettypes.QueryPacketCommitmentRequest{SourceChain: rs, DestChain: rd, Sequence: i})
				add("PacketCommitment", r1, e1)
				r2, e2 := k.PacketAcknowledgement(ctx, &packettypes.QueryPacketAcknowledgementRequest{SourceChain: rs, DestChain: rd, Sequence: i})
				add("PacketAcknowledgement", r2, e2)
				r3, e3 := k.PacketReceipt(ctx, &packettypes.QueryPacketReceiptRequest{SourceChain: rs, DestChain: rd, Sequence: i})
				add("PacketReceipt", r3, e3)
			}
			{
				res, err := k.UnreceivedPackets(ctx, &packettypes.QueryUnreceivedPacketsRequest{SourceChain: rs, DestChain: rd, PacketCommitmentSequences: seqs})
				add("UnreceivedPackets", res, err)
			}
			{
				res, err := k.UnreceivedAcks(ctx, &packettypes.QueryUnreceivedAcksRequest{SourceChain: rs, DestChain: rd, PacketAckSequences: seqs})
				add("UnreceivedAcks", res, err)
			}
			{
				res, err := k.CleanPacketCommitment(ctx, &packettypes.QueryCleanPacketCommitmentRequest{SourceChain: rs, DestChain: rd})
				add("CleanPacketCommitment", res, err)
			}
		}
	}
	{
		res, err := k.ClientStates(ctx, &clienttypes.QueryClientStatesRequest{Pagination: &query.PageRequest{Limit: 10000}})
		add("ClientStates", res, err)
	}
	{
		res, err := k.RoutingRules(ctx, &routingtypes.QueryRoutingRulesRequest{})
		add("RoutingRules", res, err)
	}
	out := map[string]string{}
	for name, h := range acc {
		out[name] = hex.EncodeToString(h)[:16]
	}
	return out
}

// clientNames: every chain name a client or relayer entry of app is stored under, plus the network's chains.
func clientNames(n *Net, app *simapp.SimApp, ctx sdk.Context) []string {
	seen := map[string]bool{}
	for _, a := range n.Names {
		seen[n.Real[a]] = true
	}
	if res, err := app.TIBCKeeper.ClientStates(ctx, &clienttypes.QueryClientStatesRequest{Pagination: &query.PageRequest{Limit: 10000}}); err == nil {
		for _, ic := range res.ClientStates {
			seen[ic.ChainName] = true
		}
	}
	for _, ir := range app.TIBCKeeper.ClientKeeper.GetAllRelayers(ctx) {
		seen[ir.ChainName] = true
	}
	out := []string{}
	for x := range seen {
		out = append(out, x)
	}
	sort.Strings(out)
	return out
}

// queryDiff lists the query kinds whose answers differ between two apps.
func queryDiff(a, b map[string]string) []string {
	var out []string
	for name, h := range a {
		if b[name] != h {
			out = append(out, fmt.Sprintf("query:%s:differs", name))
		}
	}
	sort.Strings(out)
	return out
}
