\* behaviour generation for the registry family (simulation mode)
CONSTANTS
  Names = {"B","C","Z"}
  Accts = {"a1","a2","a3"}
  Types = {"tm","bsc","eth"}
  Payloads = {"valid","garbage","wrongkind","mixedcons"}
  Headers = {"valid","badsig","badtrust","wrongchain","garbage"}
  RuleLists <- RuleListsStd
  MaxH = 100000
  LOG = TRUE
  SimDepth = 30
INIT Init
NEXT NextSim
INVARIANT PrintBehaviour
CHECK_DEADLOCK FALSE
