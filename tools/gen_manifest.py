#!/usr/bin/env python3
"""Writes /verif/MANIFEST.json from the table below (claims only what vlib registers)."""
import json, os, sys, subprocess
sys.path.insert(0, '/verif')
from vlib import families as F

CORE_NOTE = ("Bounded: 3 chains (full mesh; the relay chain without client of the destination on the topology A-B, A-C), <=3 sequences per channel exhaustively on the model (one busy channel with up to 13 sequences by simulation); "
             "the real code is checked on the TLC-generated behaviours replayed (quick: ~70 behaviours x 40-100 steps, thorough: ~800 x 60-150). "
             "Trusted: TLC, cosmos-sdk BaseApp atomicity, IAVL/ICS-23, cometbft light client, the harness projection (harness/core.go).")
CORE_TECH = "explicit TLA+ spec (TibcCore) checked by TLC + TLC-generated behaviours replayed on real simapp chains + TLC trace validation (TraceCore: MONITOR formulas and REFINE against the spec's next-state function)"
APPS_NOTE = ("Bounded: 3 chains, 2 users, NFT class universe {plain, nft-prefixed, with '/', path look-alikes}, 2 ids, MT amounts {1,2,7,14,15} units at two scales (1 and (2^64-1)/15); "
             "exhaustive design check with <=2 packets on the plain class universe; the real code (irismod nft/mt modules, transfer apps, packet layer) is checked on the replayed behaviours. "
             "Lineage of tokens is a ghost variable computed from real ledger differences. Trusted: TLC, irismod modules, cosmos-sdk, harness projection (harness/apps.go).")
APPS_TECH = "explicit TLA+ spec (TibcApps over TibcCore) checked by TLC + TLC-generated behaviours replayed on real simapp chains + TLC trace validation (TraceApps)"

CLAIMS = {
 "C01": ("TLC exhaustively checks Inv_C01 on the intended TibcCore model against a relayer that submits every single-field alteration of every genuine message; every step executed on real simapp chains (TLC-generated behaviours incl. the altered messages, real IAVL proofs, real Tendermint clients) is checked by TLC against V_C01 (accepted => sent with same source/destination/sequence/data and committed on the proving chain; rejected => nothing changed) and against the specification's next-state function.", CORE_NOTE, CORE_TECH, "§6 C01"),
 "C02": ("Inv_C02 exhaustively on the model; on the real code every recorded step is checked: the receive callback (observed callee-side through the router hook) never repeats for a key, never runs off the destination, and a genuine packet the specification accepts is accepted (completeness half); replay-heavy generation mode covers deliveries after cleanup.", CORE_NOTE, CORE_TECH, "§6 C02"),
 "C03": ("Inv_C03 exhaustively on the model; on the real code every accepted acknowledgement must match the commitment still held, be recorded on the proving chain, drop the commitment; acknowledgements are written once and equal the application's result; ack callback at most once and only on the source.", CORE_NOTE, CORE_TECH, "§6 C03"),
 "C09": ("Inv_C09 (gap-free, no reuse) exhaustively; every recorded send step (mock port and NFT/MT applications): sequence = next, advanced by one, exactly one commitment of that data, one send_packet event with the same fields, token locked or burned, failing sends change nothing.", CORE_NOTE, CORE_TECH, "§6 C09"),
 "C10": ("Inv_C10/Prop_C10mono exhaustively; every recorded clean / receive-clean step: window, all acknowledged, proven from the source's clean point, exact effect, monotone clean point, nothing at or below the clean point accepted afterwards; a long-channel generation mode reaches two-digit sequences with out-of-order acknowledgements.", CORE_NOTE, CORE_TECH, "§6 C10"),
 "C11": ("Inv_C11 exhaustively; every recorded relay-chain step: re-commit iff whitelisted and destination known else error ack and no commitment; acknowledgement passed on unchanged; no application callback and no token-store change on the transit chain; a second topology (A-B, A-C only) exercises the relay chain that does not know the destination; rule sets with near-miss names (prefix / suffix / substring of the real triple).", CORE_NOTE, CORE_TECH, "§6 C11"),
 "C13": ("Inv_C13 exhaustively on the intended model (holds) and on the as-coded model (TLC exhibits the counterexample); every accepted receive/ack on the real code must present the packet exactly as sent (all six fields) - the code fails this for port and relay chain (known finding S1).", CORE_NOTE, CORE_TECH, "§6 C13"),
 "C19": ("every recorded step of the core family: a non-zero result code leaves the projected state and the raw store digests (packet store, token stores) of every chain unchanged; no step changes another chain; application error acknowledgements leave token state unchanged (application family formulas).", CORE_NOTE, CORE_TECH, "§6 C19"),
 "C04": ("Inv_C04 (every native NFT asset held exactly once: by one user-owned token or one packet) exhaustively on the application model with the plain class universe; on the real code every recorded step is checked: asset count after the step, escrow released only to the returning voucher of the same asset or by its own refund, tokens created only by native mint / delivered packet / refund.", APPS_NOTE, APPS_TECH, "§6 C04"),
 "C05": ("Inv_C05 (user-held units + units in flight = units minted natively) and supply = sum of balances exhaustively on the model; on the real code after every recorded step, at unit scale 1 and at the scale where 15 units = 2^64-1 (wrap-around shows as a non-whole number of units or a conservation failure).", APPS_NOTE, APPS_TECH, "§6 C05"),
 "C06": ("every recorded error-acknowledgement step on a source chain must be processed and give back exactly what left to the same account; every delivered return hop must hand the receiver the token left behind on that chain; checked for plain, prefixed, '/'-containing and path-like native classes and vouchers over direct and relayed routes.", APPS_NOTE, APPS_TECH, "§6 C06"),
 "C14": ("packet part: Inv_C14 exhaustively on the core model with an expiring client; on the real code a client with a one-hour trusting period is let to expire at TLC-chosen points and every accepted receive/ack/clean is checked not to go through it. Status part: StatusClient.tla's decision on the full grid (3 client types x periods x ages incl. the boundary x sub-second parts) against the real Status().", CORE_NOTE + " Status grid: 204 cases, exhaustive.", CORE_TECH + "; StatusClient.tla case grid + TraceStatus", "§6 C14"),
 "C16": ("the specification's ExportImport action is the identity; the harness exports a chain with the application's own export function at TLC-chosen points of core and application behaviours (incl. heights whose key bytes contain '/'), starts a fresh application from the exported state and TLC requires the TIBC store and the transfer modules' stores to be equal key by key (classes of differing keys are the findings); every behaviour of the BSC and ETH client families ends with the same export + re-import of the chain holding that client (Export step, identity in Bsc / Eth).", "State equality is checked instead of running a twin chain forward (DESIGN.md §6 C16): identical stores + determinism (C20) give identical reactions. irismod nft/mt stores are third-party and not compared. " + CORE_NOTE, CORE_TECH + " with an ExportImport environment action", "§6 C16"),
 "C20": ("the same TLC-generated behaviours (core, genesis, application families) are executed twice by different processes (GOMAXPROCS 16 vs 2, different TMPDIR and sharding, later wall clock) from the same deterministic genesis; TLC (TraceDet.tla) requires result code, full result fingerprint (log, gas, events), app hash of every chain, projected state and store digests to agree line by line.", "Twin-trace equality monitor: the TLA+ part is the comparison. Both executions run on this machine/toolchain. Keys and block times are fixed by harness/detchain.go.", "TLC twin-trace monitor (TraceDet) over two real executions of TLC-generated behaviours", "§6 C20"),
}

props = [json.loads(l) for l in open('/verif/properties.jsonl')]
extra = '/verif/tools/manifest_extra.json'
if os.path.exists(extra):
    for k, v in json.load(open(extra)).items():
        CLAIMS[k] = tuple(v)
checks, na = [], []
for p in props:
    i = p['id']
    if i in CLAIMS and i in F.CHECKS:
        text, note, tech, ref = CLAIMS[i]
        checks.append(dict(property_id=i, quick_cmd="./check %s --tier quick" % i, thorough_cmd="./check %s --tier thorough" % i,
                           evidence_file="evidence/%s.json" % i, replay_cmd_template="./check %s --replay {path}" % i, engine="tlc+harness",
                           level_claimed=dict(category="model_checking", text=text, design_ref="DESIGN.md " + ref), level_note=note, technique=tech))
    else:
        na.append(dict(property_id=i, reason="check not integrated yet in this round (family under construction, see DESIGN.md status section); not claimed until it runs"))
hooks = subprocess.check_output(['git', '-C', '/repo', 'log', '--format=%h %s']).decode().splitlines()
hook_commits = [l.split()[0] for l in hooks if l.split(' ', 1)[1].startswith('verif hook')]
m = dict(version=1, setup_cmd="./setup.sh",
         hooks=dict(guard="verif", enable="go test -tags verif -c (harness module with replace => /repo)",
                    baseline_off_cmd="cd /repo && GOFLAGS=-mod=mod go test -mod=mod -json -vet=off -count=1 -timeout 25m ./...",
                    source_commits=hook_commits, add_only=True),
         engines=[dict(name="tlc", path="spec/", serves_properties=sorted(c['property_id'] for c in checks), kind_free_text="TLA+ specifications; TLC exhaustive / simulation / trace validation"),
                  dict(name="harness", path="harness/", serves_properties=sorted(c['property_id'] for c in checks), kind_free_text="Go conformance harness on real simapp chains (modules/tibc/testing), build tag verif")],
         checks=checks, not_applicable=na,
         notes="Driver: ./check <ID> [--tier quick|thorough] [--seed N] [--replay file]; VERIF_SEED / VERIF_TIER honoured. exit 2 = inconclusive (never a verdict). known_findings.json lists recorded and fixed defects.")
json.dump(m, open('/verif/MANIFEST.json', 'w'), indent=1)
print("claimed:", [c['property_id'] for c in checks]); print("not claimed:", [x['property_id'] for x in na])
