package harness

// Family "bsc" (property C17): drives the real 08-bsc light client with headers built from the abstract
// header descriptors of spec/Bsc.tla.  Nothing in this file decides whether a header should be accepted:
// it builds real, really sealed headers, submits them with MsgUpdateClient to a real simapp chain, and
// logs the result code together with the projection of the real client onto Bsc's state record.

import (
	"bytes"
	"encoding/binary"
	"encoding/hex"
	"encoding/json"
	"fmt"
	"math/big"
	"os"
	"path/filepath"
	"sort"
	"sync"
	"testing"

	"github.com/ethereum/go-ethereum/common"
	ethtypes "github.com/ethereum/go-ethereum/core/types"
	"github.com/ethereum/go-ethereum/crypto"
	"github.com/ethereum/go-ethereum/rlp"

	storetypes "cosmossdk.io/store/types"

	clienttypes "github.com/bianjieai/tibc-go/modules/tibc/core/02-client/types"
	host "github.com/bianjieai/tibc-go/modules/tibc/core/24-host"
	bsctypes "github.com/bianjieai/tibc-go/modules/tibc/light-clients/08-bsc/types"
)

const (
	bscChainID  = uint64(714)
	bscT0       = uint64(1700000000) // header time = bscT0 + abstract time
	bscGasNorm  = uint64(30000000)
	bscGasMin   = uint64(5000)
	bscGasCap   = uint64(0x7fffffffffffffff)
	bscNumKeys  = 32
	bscExtraVan = 32
	bscExtraSig = 65
)

type bscExt struct {
	Vals []int `json:"vals"`
	Mal  bool  `json:"mal"`
}

// BscEvent is one abstract event: act = "Init" (client creation) or "Hdr" (header descriptor).
type BscEvent struct {
	Act      string  `json:"act"`
	ID       int     `json:"id"`
	Epoch    uint64  `json:"epoch"`
	Num      int64   `json:"num"`
	Gl       string  `json:"gl"`
	Vals     []int   `json:"vals"`
	Pend     []int   `json:"pend"`
	Rec      [][]int `json:"rec"`
	Root     int     `json:"root"`
	Time     int64   `json:"time"`
	Parent   string  `json:"parent"`
	Signer   int     `json:"signer"`
	Coinbase string  `json:"coinbase"`
	Diff     uint64  `json:"diff"`
	Gas      string  `json:"gas"`
	Used     string  `json:"used"`
	Ext      bscExt  `json:"ext"`
	Wf       string  `json:"wf"`
	Tag      string  `json:"tag"`
}

// BscState is the projection of the real client onto the record st of spec/Bsc.tla.
type BscState struct {
	On    bool    `json:"on"`
	Epoch int64   `json:"epoch"`
	Num   int64   `json:"num"`
	Hid   int     `json:"hid"`
	Gl    string  `json:"gl"`
	Vals  []int   `json:"vals"`
	Pend  []int   `json:"pend"`
	Rec   [][]int `json:"rec"`  // [number, validator index]
	Cons  [][]int `json:"cons"` // [number, root id, time offset]
}

type BscRec struct {
	Tr   int                    `json:"tr"`
	I    int                    `json:"i"`
	Ev   json.RawMessage        `json:"ev"`
	Code uint32                 `json:"code"`
	Log  string                 `json:"log"`
	St   BscState               `json:"st"`
	Cdig string                 `json:"cdig"` // digest of the client's whole sub-store, byte for byte (determinism, C20)
	Info map[string]interface{} `json:"info"`
}

// ---------------------------------------------------------------------------------------------------
// keys: abstract validator i is the i-th smallest of bscNumKeys deterministic addresses

type bscKeys struct {
	keys  [][]byte // private keys, sorted by address
	addrs []common.Address
	idx   map[common.Address]int
}

var (
	bscKeyOnce sync.Once
	bscKeySet  *bscKeys
	bscSealN   int
	bscNetOnce sync.Once
	bscNet     *Net
)

func bscGetKeys(t *testing.T) *bscKeys {
	bscKeyOnce.Do(func() {
		type ka struct {
			k []byte
			a common.Address
		}
		var all []ka
		for i := 0; i < bscNumKeys; i++ {
			k := crypto.Keccak256([]byte(fmt.Sprintf("verif-bsc-validator-key-%d", i)))
			pk, err := crypto.ToECDSA(k)
			if err != nil {
				t.Fatalf("key %d: %v", i, err)
			}
			all = append(all, ka{k, crypto.PubkeyToAddress(pk.PublicKey)})
		}
		sort.Slice(all, func(i, j int) bool { return bytes.Compare(all[i].a[:], all[j].a[:]) < 0 })
		ks := &bscKeys{idx: map[common.Address]int{}}
		for i, x := range all {
			ks.keys = append(ks.keys, x.k)
			ks.addrs = append(ks.addrs, x.a)
			ks.idx[x.a] = i
		}
		bscKeySet = ks
	})
	return bscKeySet
}

// bscSealHash: Keccak256 of the RLP list that Parlia signs (chain id first, Extra without the seal).
// Written from the Parlia definition with go-ethereum's rlp; cross-checked against recorded mainnet headers.
func bscSealHash(h *bsctypes.Header, chainID uint64) common.Hash {
	enc, err := rlp.EncodeToBytes([]interface{}{
		new(big.Int).SetUint64(chainID),
		h.ParentHash, h.UncleHash, h.Coinbase, h.Root, h.TxHash, h.ReceiptHash, h.Bloom,
		h.Difficulty, h.Height.RevisionHeight, h.GasLimit, h.GasUsed, h.Time,
		h.Extra[:len(h.Extra)-bscExtraSig], h.MixDigest, h.Nonce,
	})
	if err != nil {
		panic(err)
	}
	return crypto.Keccak256Hash(enc)
}

func bscSeal(h *bsctypes.Header, key []byte) {
	pk, _ := crypto.ToECDSA(key)
	sig, err := crypto.Sign(bscSealHash(h, bscChainID).Bytes(), pk)
	if err != nil {
		panic(err)
	}
	copy(h.Extra[len(h.Extra)-bscExtraSig:], sig)
}

// bscCrossCheck recomputes the seal hash of every recorded mainnet header of the repository's testdata with
// bscSealHash, recovers the sealer and compares it with the header's miner; it also checks the hash chain
// (Header.Hash of header k = ParentHash of header k+1).  Returns the number of headers checked.
func bscCrossCheck(t *testing.T) int {
	repo := os.Getenv("VERIF_REPO")
	if repo == "" {
		repo = "/repo"
	}
	bz, err := os.ReadFile(filepath.Join(repo, "modules/tibc/light-clients/08-bsc/types/testdata/update_headers.json"))
	if err != nil {
		t.Fatalf("bsc cross-check: %v", err)
	}
	var hs []*bsctypes.BscHeader
	if err := json.Unmarshal(bz, &hs); err != nil {
		t.Fatalf("bsc cross-check: %v", err)
	}
	for i, bh := range hs {
		h := bh.ToHeader()
		pub, err := crypto.Ecrecover(bscSealHash(&h, 56).Bytes(), h.Extra[len(h.Extra)-bscExtraSig:])
		if err != nil {
			t.Fatalf("bsc cross-check: header %d: %v", i, err)
		}
		var a common.Address
		copy(a[:], crypto.Keccak256(pub[1:])[12:])
		if a != bh.Coinbase {
			t.Fatalf("bsc cross-check: seal hash of recorded header %d recovers %s, miner is %s", i, a.Hex(), bh.Coinbase.Hex())
		}
		if i+1 < len(hs) && h.Hash() != hs[i+1].ParentHash {
			t.Fatalf("bsc cross-check: hash of recorded header %d is not the parent hash of the next", i)
		}
	}
	return len(hs)
}

// ---------------------------------------------------------------------------------------------------

type bscRunner struct {
	t       *testing.T
	n       *Net
	ks      *bscKeys
	name    string
	tr      int
	hashID  map[common.Hash]int
	rootID  map[common.Hash]int
	before  common.Hash // hash of the header before the client's latest one
	lastTop common.Hash
	t0      uint64 // header time = t0 + abstract time
}

// bscHash is Header.Hash, which panics on over-long fixed-size fields (then: the zero hash and false).
func bscHash(h *bsctypes.Header) (hash common.Hash, ok bool) {
	defer func() {
		if recover() != nil {
			hash, ok = common.Hash{}, false
		}
	}()
	return h.Hash(), true
}

func bscRoot(tr, id int) common.Hash {
	return crypto.Keccak256Hash([]byte(fmt.Sprintf("verif-bsc-root-%d-%d", tr, id)))
}

func (r *bscRunner) addrList(idx []int, rot int) [][]byte {
	s := append([]int{}, idx...)
	sort.Ints(s)
	out := make([][]byte, 0, len(s))
	for i := range s {
		a := r.ks.addrs[s[(i+rot)%len(s)]]
		out = append(out, append([]byte{}, a[:]...))
	}
	return out
}

func bscExtra(vals [][]byte, stray int) []byte {
	ex := make([]byte, 0, bscExtraVan+20*len(vals)+stray+bscExtraSig)
	van := make([]byte, bscExtraVan)
	copy(van, []byte("verif-bsc"))
	ex = append(ex, van...)
	for _, v := range vals {
		ex = append(ex, v...)
	}
	for i := 0; i < stray; i++ {
		ex = append(ex, 0xab)
	}
	return append(ex, make([]byte, bscExtraSig)...)
}

func (r *bscRunner) blank(num uint64, parent common.Hash, coinbase common.Address, rootID int, t int64) bsctypes.Header {
	root := bscRoot(r.tr, rootID)
	r.rootID[root] = rootID
	uh := ethtypes.CalcUncleHash(nil)
	return bsctypes.Header{
		ParentHash:  parent.Bytes(),
		UncleHash:   uh.Bytes(),
		Coinbase:    coinbase.Bytes(),
		Root:        root.Bytes(),
		TxHash:      ethtypes.EmptyRootHash.Bytes(),
		ReceiptHash: ethtypes.EmptyRootHash.Bytes(),
		Bloom:       make([]byte, 256),
		Difficulty:  2,
		Height:      clienttypes.NewHeight(0, num),
		Time:        uint64(int64(r.t0) + t),
		MixDigest:   make([]byte, 32),
		Nonce:       make([]byte, 8),
	}
}

func (r *bscRunner) clientState() *bsctypes.ClientState {
	c := r.n.Chains["A"]
	cs, found := c.App.TIBCKeeper.ClientKeeper.GetClientState(c.GetContext(), r.name)
	if !found {
		return nil
	}
	b, ok := cs.(*bsctypes.ClientState)
	if !ok {
		r.t.Fatalf("client %s is a %T", r.name, cs)
	}
	return b
}

func (r *bscRunner) idxOf(b []byte) int {
	if i, ok := r.ks.idx[common.BytesToAddress(b)]; ok && len(b) == 20 {
		return i
	}
	return -1
}

func (r *bscRunner) idxList(bs [][]byte) []int {
	out := make([]int, 0, len(bs))
	for _, b := range bs {
		out = append(out, r.idxOf(b))
	}
	sort.Ints(out)
	return out
}

func clampOff(v uint64, base uint64) int {
	d := int64(v) - int64(base)
	if d < -1000000000 || d > 1000000000 {
		return -999999999
	}
	return int(d)
}

// project reads the real client.
func (r *bscRunner) project() BscState {
	st := BscState{Epoch: 1, Gl: "norm", Vals: []int{}, Pend: []int{}, Rec: [][]int{}, Cons: [][]int{}}
	cs := r.clientState()
	if cs == nil {
		return st
	}
	c := r.n.Chains["A"]
	ctx := c.GetContext()
	cdc := c.App.AppCodec()
	store := c.App.TIBCKeeper.ClientKeeper.ClientStore(ctx, r.name)
	st.On = true
	st.Epoch = int64(cs.Epoch)
	st.Num = int64(cs.Header.Height.RevisionHeight)
	top, hashable := bscHash(&cs.Header)
	if top != r.lastTop {
		r.before, r.lastTop = r.lastTop, top
	}
	if id, ok := r.hashID[top]; ok && hashable {
		st.Hid = id
	} else if hashable {
		st.Hid = -1 // a header the harness never built
	} else {
		st.Hid = -2 // Header.Hash() panics on the stored header
	}
	switch cs.Header.GasLimit {
	case bscGasMin:
		st.Gl = "min"
	case bscGasCap:
		st.Gl = "cap"
	}
	st.Vals = r.idxList(cs.Validators)
	if store.Has([]byte(bsctypes.PrefixPendingValidators)) {
		st.Pend = r.idxList(bsctypes.GetPendingValidators(cdc, store).Validators)
	}
	rs, err := bsctypes.GetRecentSigners(store)
	if err != nil {
		r.t.Fatalf("recent signers: %v", err)
	}
	for _, s := range rs {
		st.Rec = append(st.Rec, []int{int(s.Height.RevisionHeight), r.idxOf(s.Validator)})
	}
	sort.Slice(st.Rec, func(i, j int) bool { return st.Rec[i][0] < st.Rec[j][0] })
	pref := []byte(host.KeyConsensusStatePrefix + "/")
	it := storetypes.KVStorePrefixIterator(store, pref)
	defer it.Close()
	for ; it.Valid(); it.Next() {
		k := it.Key()[len(pref):]
		if len(k) != 16 {
			continue
		}
		hgt := binary.BigEndian.Uint64(k[8:])
		csi, err := clienttypes.UnmarshalConsensusState(cdc, it.Value())
		if err != nil {
			st.Cons = append(st.Cons, []int{int(hgt), -3, 0})
			continue
		}
		bc, ok := csi.(*bsctypes.ConsensusState)
		if !ok || bc.Number.RevisionHeight != hgt || bc.Number.RevisionNumber != 0 || binary.BigEndian.Uint64(k[:8]) != 0 {
			st.Cons = append(st.Cons, []int{int(hgt), -2, 0})
			continue
		}
		rid, ok := r.rootID[common.BytesToHash(bc.Root)]
		if !ok || len(bc.Root) != 32 {
			rid = -1
		}
		st.Cons = append(st.Cons, []int{int(hgt), rid, clampOff(bc.Timestamp, r.t0)})
	}
	return st
}

// create executes an Init event: the client is created through the real keeper the way the repository's
// tests create clients (ClientKeeper.CreateClient on the chain's context, then a block).
func (r *bscRunner) create(ev *BscEvent) (uint32, string, map[string]interface{}) {
	c := r.n.Chains["A"]
	sealer := 0
	if len(ev.Vals) > 0 {
		sealer = ev.Vals[0]
	}
	for _, x := range ev.Rec {
		if int64(x[0]) == ev.Num {
			sealer = x[1]
		}
	}
	parent := crypto.Keccak256Hash([]byte(fmt.Sprintf("verif-bsc-before-creation-%d", r.tr)))
	h := r.blank(uint64(ev.Num), parent, r.ks.addrs[sealer], ev.Root, ev.Time)
	switch ev.Gl {
	case "min":
		h.GasLimit = bscGasMin
	case "cap":
		h.GasLimit = bscGasCap
	default:
		h.GasLimit = bscGasNorm
	}
	h.GasUsed = h.GasLimit / 2
	h.Extra = bscExtra(r.addrList(ev.Pend, 0), 0)
	bscSeal(&h, r.ks.keys[sealer])
	var recents []bsctypes.Signer
	for _, x := range ev.Rec {
		recents = append(recents, bsctypes.Signer{Height: clienttypes.NewHeight(0, uint64(x[0])), Validator: r.ks.addrs[x[1]].Bytes()})
	}
	cs := bsctypes.NewClientState(h, bscChainID, ev.Epoch, 3, r.addrList(ev.Vals, ev.ID+1), recents,
		common.HexToAddress("0x00000000000000000000000000000000000000c7").Bytes(), 1<<40)
	cons := &bsctypes.ConsensusState{Timestamp: h.Time, Number: h.Height, Root: h.Root}
	ctx := c.GetContext()
	k := c.App.TIBCKeeper.ClientKeeper
	k.RegisterRelayers(ctx, r.name, []string{c.SenderAccounts[0].SenderAccount.GetAddress().String()})
	r.hashID[h.Hash()] = ev.ID
	r.lastTop = parent
	info := map[string]interface{}{"hash": h.Hash().Hex()[:12], "gasLimit": fmt.Sprint(h.GasLimit)}
	if err := k.CreateClient(ctx, r.name, cs, cons); err != nil {
		r.n.Coord.CommitBlock(c)
		return 1, err.Error(), info
	}
	r.n.Coord.CommitBlock(c)
	return 0, "", info
}

// header concretises a header descriptor against the CURRENT real client and submits it.
func (r *bscRunner) header(ev *BscEvent) (uint32, string, map[string]interface{}) {
	cs := r.clientState()
	if cs == nil {
		return 2, "no client", map[string]interface{}{}
	}
	var parent common.Hash
	switch ev.Parent {
	case "latest":
		parent, _ = bscHash(&cs.Header)
	case "grand":
		parent = r.before
	default:
		parent = crypto.Keccak256Hash([]byte(fmt.Sprintf("verif-bsc-unknown-parent-%d-%d", r.tr, ev.ID)))
	}
	nk := len(r.ks.addrs)
	sg := ((ev.Signer % nk) + nk) % nk
	coinbase := r.ks.addrs[sg]
	if ev.Coinbase != "signer" {
		coinbase = r.ks.addrs[(sg+1)%nk]
	}
	h := r.blank(uint64(ev.Num), parent, coinbase, ev.Root, ev.Time)
	h.Difficulty = ev.Diff
	p := cs.Header.GasLimit
	b := p / 256
	switch ev.Gas {
	case "same":
		h.GasLimit = p
	case "inside":
		h.GasLimit = p + b/2
	case "up_edge":
		h.GasLimit = p + b - 1
	case "down_edge":
		h.GasLimit = p - b + 1
	case "up_over":
		h.GasLimit = p + b
	case "down_over":
		h.GasLimit = p - b
	case "below_min":
		h.GasLimit = bscGasMin - 1
	case "above_cap":
		h.GasLimit = bscGasCap + 1
	default:
		r.t.Fatalf("unknown gas class %q", ev.Gas)
	}
	if ev.Used == "ok" {
		h.GasUsed = h.GasLimit / 2
	} else {
		h.GasUsed = h.GasLimit + 1
	}
	stray := 0
	if ev.Ext.Mal {
		stray = 7
	}
	h.Extra = bscExtra(r.addrList(ev.Ext.Vals, ev.ID), stray)
	switch ev.Wf {
	case "ok", "sealBytes":
	case "nonce":
		h.Nonce[7] = 1
	case "bloomLong":
		h.Bloom = make([]byte, 257)
	case "nonceLong":
		h.Nonce = make([]byte, 9)
	case "mixDigest":
		h.MixDigest[31] = 1
	case "uncleHash":
		h.UncleHash = crypto.Keccak256([]byte("uncles"))
	case "extraShort":
		h.Extra = h.Extra[:bscExtraVan+bscExtraSig-1]
	case "noVanity":
		h.Extra = h.Extra[:20]
	default:
		r.t.Fatalf("unknown wf class %q", ev.Wf)
	}
	if len(h.Extra) >= bscExtraVan+bscExtraSig {
		bscSeal(&h, r.ks.keys[sg]) // every alteration above is covered by the seal: the header is otherwise valid
	}
	if ev.Wf == "sealBytes" {
		h.Extra[len(h.Extra)-bscExtraSig+10] ^= 0x04
	}
	hh, hashable := bscHash(&h)
	if hashable {
		r.hashID[hh] = ev.ID
	}
	info := map[string]interface{}{"hash": hh.Hex()[:12], "gasLimit": fmt.Sprint(h.GasLimit), "parentGasLimit": fmt.Sprint(p),
		"sealer": r.ks.addrs[sg].Hex()[:10], "extra": len(h.Extra)}
	code, lg := r.deliver(r.name, &h)
	return code, lg, info
}

func runBsc(t *testing.T, inp *Input, tr int, beh []json.RawMessage, out func(interface{})) {
	ks := bscGetKeys(t)
	bscNetOnce.Do(func() {
		bscSealN = bscCrossCheck(t)
		bscNet = NewNet(t, 1, nil)
	})
	r := &bscRunner{t: t, n: bscNet, ks: ks, name: fmt.Sprintf("bscverif%06d", tr), tr: tr,
		hashID: map[common.Hash]int{}, rootID: map[common.Hash]int{}, t0: bscT0}
	out(&BscRec{Tr: tr, I: 0, Ev: json.RawMessage(`{"act":"Reset"}`), St: r.project(), Cdig: r.n.ClientDigestOf("A", r.name),
		Info: map[string]interface{}{"client": r.name, "seal_hash_cross_checked_on_recorded_headers": bscSealN,
			"key0": hex.EncodeToString(ks.addrs[0][:4])}})
	step := 0
	emit := func(ev json.RawMessage, code uint32, lg string, info map[string]interface{}) {
		step++
		out(&BscRec{Tr: tr, I: step, Ev: ev, Code: code, Log: lg, St: r.project(), Cdig: r.n.ClientDigestOf("A", r.name), Info: info})
	}
	for _, raw := range beh {
		var ev BscEvent
		if err := json.Unmarshal(raw, &ev); err != nil {
			t.Fatalf("bad bsc event %s: %v", raw, err)
		}
		switch ev.Act {
		case "Init":
			code, lg, info := r.create(&ev)
			emit(raw, code, lg, info)
		case "Hdr":
			code, lg, info := r.header(&ev)
			emit(raw, code, lg, info)
		case "Mainnet":
			r.mainnet(emit)
		default:
			t.Fatalf("unknown bsc act %q", ev.Act)
		}
	}
	// C16 for this client type (see eth.go): export + re-import of the chain that holds the clients of all behaviours so far
	diff, info := r.n.ExportImport("A")
	if diff == nil {
		diff = []string{}
	}
	info["diff"] = diff
	emit(json.RawMessage(`{"act":"Export"}`), 0, "", info)
}

// ---------------------------------------------------------------------------------------------------
// Recorded chain: the 300 BSC mainnet headers of the repository's testdata (validator set of 21, epoch 200,
// one real validator rotation) are submitted to a client created the way the repository's test creates it.
// Direction code -> spec: every recorded header is CLASSIFIED into the header descriptor of spec/Bsc.tla
// (sealer = index of the recovered address among the sorted validator addresses, gas limit relative to
// the parent's, ...); the trace specification then decides, exactly as for generated headers.

func (r *bscRunner) deliver(name string, h *bsctypes.Header) (uint32, string) {
	c := r.n.Chains["A"]
	msg, err := clienttypes.NewMsgUpdateClient(name, h, c.SenderAccounts[0].SenderAccount.GetAddress())
	if err != nil {
		return 3, "pack: " + err.Error()
	}
	res := r.n.Deliver("A", 0, msg)
	acc := c.App.AccountKeeper.GetAccount(c.GetContext(), c.SenderAccounts[0].SenderAccount.GetAddress())
	if err := c.SenderAccounts[0].SenderAccount.SetSequence(acc.GetSequence()); err != nil {
		r.t.Fatal(err)
	}
	lg := res.Log
	if len(lg) > 240 {
		lg = lg[:240]
	}
	return res.Code, lg
}

func bscLoadJSON(t *testing.T, name string, into interface{}) {
	repo := os.Getenv("VERIF_REPO")
	if repo == "" {
		repo = "/repo"
	}
	bz, err := os.ReadFile(filepath.Join(repo, "modules/tibc/light-clients/08-bsc/types/testdata", name))
	if err != nil {
		t.Fatalf("bsc testdata: %v", err)
	}
	if err := json.Unmarshal(bz, into); err != nil {
		t.Fatalf("bsc testdata %s: %v", name, err)
	}
}

func (r *bscRunner) mainnet(emit func(json.RawMessage, uint32, string, map[string]interface{})) {
	var gen struct {
		GenesisHeader          *bsctypes.BscHeader `json:"genesis_header"`
		GenesisValidatorHeader *bsctypes.BscHeader `json:"genesis_validator_header"`
	}
	var hs []*bsctypes.BscHeader
	bscLoadJSON(r.t, "genesis_state.json", &gen)
	bscLoadJSON(r.t, "update_headers.json", &hs)
	pend, err := bsctypes.ParseValidators(gen.GenesisHeader.Extra)
	if err != nil {
		r.t.Fatal(err)
	}
	vals, err := bsctypes.ParseValidators(gen.GenesisValidatorHeader.Extra)
	if err != nil {
		r.t.Fatal(err)
	}
	// abstract validator i = i-th smallest address that any recorded validator list mentions
	seen := map[common.Address]bool{}
	lists := append(append([][]byte{}, pend...), vals...)
	for _, bh := range hs {
		if n := len(bh.Extra) - bscExtraVan - bscExtraSig; n > 0 && n%20 == 0 {
			l, _ := bsctypes.ParseValidators(bh.Extra)
			lists = append(lists, l...)
		}
	}
	ks := &bscKeys{idx: map[common.Address]int{}}
	for _, b := range lists {
		a := common.BytesToAddress(b)
		if !seen[a] {
			seen[a] = true
			ks.addrs = append(ks.addrs, a)
		}
	}
	sort.Slice(ks.addrs, func(i, j int) bool { return bytes.Compare(ks.addrs[i][:], ks.addrs[j][:]) < 0 })
	for i, a := range ks.addrs {
		ks.idx[a] = i
	}
	r.ks = ks
	g := gen.GenesisHeader.ToHeader()
	r.t0 = g.Time
	c := r.n.Chains["A"]
	ctx := c.GetContext()
	k := c.App.TIBCKeeper.ClientKeeper
	k.RegisterRelayers(ctx, r.name, []string{c.SenderAccounts[0].SenderAccount.GetAddress().String()})
	cs := bsctypes.NewClientState(g, 56, 200, 3, vals, nil, []byte("0x00"), 1<<40)
	r.hashID[g.Hash()] = 0
	r.rootID[common.BytesToHash(g.Root)] = 0
	r.lastTop = common.BytesToHash(g.ParentHash)
	code, lg := uint32(0), ""
	if err := k.CreateClient(ctx, r.name, cs, &bsctypes.ConsensusState{Timestamp: g.Time, Number: g.Height, Root: g.Root}); err != nil {
		code, lg = 1, err.Error()
	}
	r.n.Coord.CommitBlock(c)
	ev, _ := json.Marshal(map[string]interface{}{"act": "Init", "id": 0, "epoch": 200, "num": g.Height.RevisionHeight, "gl": "norm",
		"vals": r.idxList(vals), "pend": r.idxList(pend), "rec": [][]int{}, "root": 0, "time": 0, "tag": "recorded"})
	emit(ev, code, lg, map[string]interface{}{"validators": len(vals), "universe": len(ks.addrs)})
	empty := ethtypes.CalcUncleHash(nil)
	for i, bh := range hs {
		id := i + 2
		h := bh.ToHeader()
		cur := r.clientState()
		d := map[string]interface{}{"act": "Hdr", "id": id, "num": h.Height.RevisionHeight, "diff": h.Difficulty,
			"time": clampOff(h.Time, r.t0), "root": id, "tag": "recorded"}
		r.hashID[h.Hash()] = id
		r.rootID[common.BytesToHash(h.Root)] = id
		switch common.BytesToHash(h.ParentHash) {
		case cur.Header.Hash():
			d["parent"] = "latest"
		case r.before:
			d["parent"] = "grand"
		default:
			d["parent"] = "random"
		}
		wf := "ok"
		switch {
		case len(h.Extra) < bscExtraVan:
			wf = "noVanity"
		case len(h.Extra) < bscExtraVan+bscExtraSig:
			wf = "extraShort"
		case common.BytesToHash(h.MixDigest) != (common.Hash{}):
			wf = "mixDigest"
		case common.BytesToHash(h.UncleHash) != empty:
			wf = "uncleHash"
		case !bytes.Equal(h.Nonce, make([]byte, 8)):
			wf = "nonce"
		}
		d["wf"] = wf
		sealer, coinbase := -1, "other"
		ext := map[string]interface{}{"vals": []int{}, "mal": false}
		if len(h.Extra) >= bscExtraVan+bscExtraSig {
			if pub, err := crypto.Ecrecover(bscSealHash(&h, 56).Bytes(), h.Extra[len(h.Extra)-bscExtraSig:]); err == nil {
				a := common.BytesToAddress(crypto.Keccak256(pub[1:])[12:])
				sealer = r.idxOf(a.Bytes())
				if a == common.BytesToAddress(h.Coinbase) {
					coinbase = "signer"
				}
			}
			if n := len(h.Extra) - bscExtraVan - bscExtraSig; n%20 != 0 {
				ext["mal"] = true
			} else if n > 0 {
				l, _ := bsctypes.ParseValidators(h.Extra)
				ext["vals"] = r.idxList(l)
			}
		}
		d["signer"], d["coinbase"], d["ext"] = sealer, coinbase, ext
		p := cur.Header.GasLimit
		b := p / 256
		switch {
		case h.GasLimit > bscGasCap:
			d["gas"] = "above_cap"
		case h.GasLimit < bscGasMin:
			d["gas"] = "below_min"
		case h.GasLimit == p:
			d["gas"] = "same"
		case h.GasLimit > p && h.GasLimit-p < b, h.GasLimit < p && p-h.GasLimit < b:
			d["gas"] = "inside"
		case h.GasLimit > p:
			d["gas"] = "up_over"
		default:
			d["gas"] = "down_over"
		}
		d["used"] = "ok"
		if h.GasUsed > h.GasLimit {
			d["used"] = "over"
		}
		ev, _ := json.Marshal(d)
		code, lg := r.deliver(r.name, &h)
		emit(ev, code, lg, map[string]interface{}{"hash": h.Hash().Hex()[:12], "gasLimit": fmt.Sprint(h.GasLimit)})
	}
}

func init() { Families["bsc"] = runBsc }
