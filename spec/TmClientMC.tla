------------------------------ MODULE TmClientMC ------------------------------
(***************************************************************************)
(* Closed system for TmClient: one client is created with some parameters,  *)
(* the host chain's block time advances (also past expiry), and a relayer   *)
(* submits ANY header: every height, revision, time, validator set, next    *)
(* validator set, subset of signers, trusted height and trusted validators. *)
(* Next    exhaustive over a small universe (design check);                 *)
(* NextSim one randomly chosen event per step over a larger universe        *)
(*         (behaviour generation): headers built to pass against a stored   *)
(*         state, single-field alterations of such headers that sit exactly *)
(*         on and one tick either side of every boundary, and arbitrary     *)
(*         headers.                                                         *)
(***************************************************************************)
EXTENDS TmClient, Json

CONSTANTS MaxH,      \* heights 1..MaxH
          MaxT,      \* exhaustive: header times 0..MaxT
          MaxNow,    \* exhaustive: block time bound
          MCSets,    \* validator set ids in use
          Roots,     \* app hash ids in use
          Pars,      \* client parameter records a client may be created with
          ParSel,    \* design check: which of MCTm's parameter sets Pars is (1 = one record, 2 = two records)
          Ticks,     \* exhaustive: block time increments
          Levels,    \* trust levels <<num, den>> for which Inv_Update is evaluated in every reachable state
          LOG,       \* TRUE: record events in evlog (generation)
          SimDepth   \* print evlog when it reaches this length (generation)

Init ==
  /\ st = NoClient
  /\ evlog = <<>>

Log(e) == evlog' = IF LOG THEN Append(evlog, e) ELSE evlog

-------------------------------------------------------------------------------
(* exhaustive universe *)
RevPairs(s) == {<<s.par.rev, s.par.rev>>, <<s.par.rev + 1, s.par.rev>>, <<s.par.rev, s.par.rev + 1>>}   \* <<rev, trev>>

CreateEvents ==
  {[act |-> "Create", par |-> p, height |-> 1, time |-> 1, root |-> 1, nextVals |-> s, now |-> 1, unit |-> "s"] :
     p \in Pars, s \in MCSets}

Headers ==
  UNION {{[height |-> hh, rev |-> rp[1], time |-> t, root |-> r, vals |-> vs, nextVals |-> nv, signers |-> S,
           trev |-> rp[2], trusted |-> th, trustedVals |-> tv] :
             hh \in 1..MaxH, rp \in RevPairs(st), t \in 0..MaxT, r \in Roots, nv \in MCSets, S \in SUBSET Members(vs),
             th \in 0..MaxH, tv \in MCSets} : vs \in MCSets}

Next ==
  \/ ~Created(st) /\ \E e \in CreateEvents : Do(e) /\ Log(e)
  \/ Created(st) /\ \E d \in Ticks : st.now + d <= MaxNow /\ Do([act |-> "Tick", dt |-> d]) /\ Log([act |-> "Tick", dt |-> d])
  \/ Created(st) /\ \E h \in Headers : Do([act |-> "Update", hdr |-> h]) /\ Log([act |-> "Update", hdr |-> h])

Spec == Init /\ [][Next]_vars

\* "for every header against every reachable client state": the statement's decision (Accept) and the
\* code-ordered decision (Check, inside UpdateRes) agree, and the post-state is what the statement demands.
\* Evaluated for every trust level of Levels, whatever level the client was created with.
Inv_Update ==
  Created(st) => \A l \in Levels : LET s == [st EXCEPT !.par.num = l[1], !.par.den = l[2]] IN
                                     \A h \in Headers : UpdatePost(s, h)

-------------------------------------------------------------------------------
(* Generation.  Every random choice is bound by a set comprehension over a singleton                *)
(* {RandomElement(..)}, so that one value is drawn and then used consistently.                       *)
Rand(S) == RandomElement(S)
PickSet(X) == IF X = {} THEN {} ELSE {Rand(X)}
OrElse(A, B) == UNION {IF a # {} THEN a ELSE B : a \in {A}}
MinN(a, b) == IF a < b THEN a ELSE b

GenRevAlt == IF st.par.rev > 1 THEN {st.par.rev + 1, st.par.rev - 1} ELSE {st.par.rev + 1}
Upd(h, tag) == [act |-> "Update", hdr |-> h, tag |-> tag]

GenCreate ==
  {[act |-> "Create", par |-> p, height |-> hh, time |-> t, root |-> r, nextVals |-> s, now |-> t + dn, unit |-> u,
    sets |-> VS] :      \* the harness builds the real validator sets from this table
     \* (st.now = 0 here; mentioning st keeps TLC from evaluating this as a constant, once)
     p \in {Rand(Pars)}, hh \in {Rand(1..3)}, t \in {Rand(0..3)}, r \in {Rand(Roots)}, s \in {Rand(MCSets)},
     dn \in {Rand(0..2) + st.now}, u \in {Rand({"ns", "s", "h"})}}

\* signer sets that satisfy the voting-power rules for header set vs against trusted set tv
GoodSigners(vs, tv, adj) ==
  {S \in SUBSET Members(vs) : OverTwoThirds(vs, S) /\ (adj \/ OverTrust(st.par, tv, S))}
\* signer sets that sit exactly on a threshold
ExactSigners(vs, tv) ==
  {S \in SUBSET Members(vs) : 3 * Power(vs, S) = 2 * Total(vs) \/ Power(tv, S) * st.par.den = Total(tv) * st.par.num}

\* a header built to pass against the stored state c (it still fails when c is expired, the client is
\* expired or the time window (c.time, now+drift) is empty)
BaseFrom(c) ==
  LET lo == c[3] + 1   hi == st.now + st.par.drift - 1 IN
  IF c[2] >= MaxH THEN {} ELSE
  UNION {UNION {UNION {
     {[height |-> hh, rev |-> c[1], time |-> t, root |-> r, vals |-> vs, nextVals |-> nv, signers |-> S,
       trev |-> c[1], trusted |-> c[2], trustedVals |-> c[5]] :
          S \in PickSet(GoodSigners(vs, c[5], hh = c[2] + 1)), nv \in {Rand(MCSets)}, r \in {Rand(Roots)}}
       : vs \in IF hh = c[2] + 1 THEN {c[5]} ELSE PickSet({s \in MCSets : GoodSigners(s, c[5], FALSE) # {}})}
       : hh \in {IF Rand(1..3) = 1 THEN c[2] + 1 ELSE Rand((c[2] + 1)..MinN(c[2] + 4, MaxH))}}
       : t \in {IF lo >= hi THEN lo ELSE IF Rand(1..3) = 1 THEN lo ELSE IF Rand(1..2) = 1 THEN hi ELSE Rand(lo..hi)}}

Trustable == {c \in st.cons : ~Expired(st, c[3])}
GenBase == UNION {{Upd(h, "base") : h \in BaseFrom(c)} : c \in PickSet(Trustable)}

\* one aspect of a base header g (built against c) is altered
Missing == {hh \in 0..MinN(st.latest[2] + 1, MaxH) : At(st, <<st.par.rev, hh>>) = {}}
AlterK(g, c, k) ==
  CASE k = 1  -> {Upd([g EXCEPT !.time = c[3]], "time=trusted")}
    [] k = 2  -> {Upd([g EXCEPT !.time = IF c[3] > 0 THEN c[3] - 1 ELSE 0], "time<trusted")}
    [] k = 3  -> {Upd([g EXCEPT !.time = st.now + st.par.drift], "time=now+drift")}
    [] k = 4  -> {Upd([g EXCEPT !.time = st.now + st.par.drift + 1], "time>now+drift")}
    [] k = 5  -> {Upd([g EXCEPT !.signers = S], "signers") : S \in {Rand(SUBSET Members(g.vals))}}
    [] k = 6  -> {Upd([g EXCEPT !.signers = S], "signers_exact") : S \in PickSet(ExactSigners(g.vals, g.trustedVals))}
    [] k = 7  -> {Upd([g EXCEPT !.signers = g.signers \ {v}], "signers-1") : v \in PickSet(g.signers)}
    [] k = 8  -> {Upd([g EXCEPT !.trustedVals = s], "trustedVals") : s \in PickSet(MCSets \ {g.trustedVals})}
    [] k = 9  -> UNION {{Upd([g EXCEPT !.vals = s, !.signers = S], "vals") : S \in PickSet(GoodSigners(s, g.trustedVals, TRUE))} :
                          s \in PickSet(MCSets \ {g.vals})}
    [] k = 10 -> {Upd([g EXCEPT !.rev = r], "rev") : r \in {Rand(GenRevAlt)}}
    [] k = 11 -> {Upd([g EXCEPT !.trev = r], "trev") : r \in {Rand(GenRevAlt)}}
    [] k = 12 -> {Upd([g EXCEPT !.rev = r, !.trev = r], "rev+trev") : r \in {Rand(GenRevAlt)}}
    [] k = 13 -> {Upd([g EXCEPT !.height = hh], "height<=trusted") : hh \in {Rand(1..c[2])}}
    [] k = 14 -> {Upd([g EXCEPT !.trusted = hh], "trusted_missing") : hh \in PickSet(Missing)}
    [] k = 15 -> {Upd([g EXCEPT !.time = c[3] + 1], "time=trusted+1")}
    [] k = 16 -> {Upd([g EXCEPT !.time = st.now + st.par.drift - 1], "time=now+drift-1")}
    [] k = 17 -> {Upd([g EXCEPT !.height = c[2] + 1], "adjacent_other_vals")}
    [] OTHER  -> {}

\* alterations start from a header built against ANY stored state (expired ones included)
GenAlt == UNION {UNION {UNION {AlterK(g, c, k) : k \in {Rand(1..17)}} : g \in BaseFrom(c)} : c \in PickSet(st.cons)}

GenRandom ==
  UNION {{Upd([height |-> hh, rev |-> rv, time |-> t, root |-> r, vals |-> vs, nextVals |-> nv, signers |-> S,
               trev |-> trv, trusted |-> th, trustedVals |-> tv], "random") :
             hh \in {Rand(1..MinN(st.latest[2] + 3, MaxH))}, rv \in {Rand({st.par.rev} \cup GenRevAlt)}, t \in {Rand(0..(st.now + st.par.drift + 1))},
             r \in {Rand(Roots)}, nv \in {Rand(MCSets)}, S \in {Rand(SUBSET Members(vs))},
             trv \in {Rand({st.par.rev} \cup GenRevAlt)}, th \in {Rand(0..MinN(st.latest[2] + 1, MaxH))}, tv \in {Rand(MCSets)}} : vs \in {Rand(MCSets)}}

\* block time: small steps, and steps that land exactly on / one tick either side of the expiry instant of a
\* stored state (the lowest one - pruning; the latest one - client expiry; any - trusted state expiry)
Bnd(c) == {d \in {c[3] + st.par.period - st.now + k : k \in {-1, 0, 1}} : d >= 1}
TickSet(k) ==
  IF k <= 10 THEN {1}
  ELSE IF k <= 14 THEN {2}
  ELSE IF k <= 17 THEN OrElse(UNION {Bnd(c) : c \in PickSet(st.cons \ At(st, st.latest))}, {1})
  ELSE IF k = 18 THEN {3, 4}
  ELSE IF Len(evlog) * 3 >= SimDepth * 2        \* the client itself expires only late in a behaviour
       THEN OrElse(UNION {Bnd(c) : c \in At(st, st.latest)}, {1})
       ELSE {1, 2}
GenTick == UNION {{[act |-> "Tick", dt |-> d] : d \in {Rand(TickSet(k))}} : k \in {Rand(1..20)}}

SimEvents ==
  IF ~Created(st) THEN GenCreate
  ELSE UNION {IF roll <= 3 THEN GenTick
              ELSE IF roll <= 9 THEN OrElse(GenBase, GenRandom)
              ELSE IF roll <= 18 THEN OrElse(GenAlt, OrElse(GenBase, GenRandom))
              ELSE GenRandom : roll \in {Rand(1..20)}}

NextSim == \E e \in SimEvents : Do(e) /\ Log(e)

\* prints one behaviour per line when the simulator reaches the requested depth
PrintBehaviour == (Len(evlog) = SimDepth) => PrintT(<<"BEH", ToJson(evlog)>>)
=============================================================================
