"""Families that reuse the core / application specifications with an extra environment action:
   genesis export + re-import (C16), client expiry (C14 packet part), and the determinism twin run (C20)."""
import copy
import json
import os
import shutil
import time

from . import common as C
from . import tracefam as T
from . import families as F
from . import fam_apps as A

T3 = [["A", "B"], ["B", "C"], ["A", "C"]]

GENESIS = copy.deepcopy(F.CORE)
GENESIS.update(name="genesis",
               design=[dict(role="intended", module="MCCore.tla", cfg="core_export_design.cfg",
                            overrides_quick={"MaxSeq": "1"}, overrides_thorough={"MaxSeq": "2"})],
               gen=dict(module="MCCore.tla", cfgs=[("gen_core_export.cfg", 1.0)], quick=(24, 40), thorough=(240, 60)))
GENESIS_APPS = copy.deepcopy(A.FAM)
GENESIS_APPS.update(name="genesisapps", design=[],
                    gen=dict(module="MCApps.tla", cfgs=[("gen_apps_export.cfg", 1.0)], quick=(16, 40), thorough=(160, 60), timeout=1500))

EXPIRY = copy.deepcopy(F.CORE)
EXPIRY.update(name="expiry", design=[],
              gen=dict(module="MCCore.tla", cfgs=[("gen_core_expire.cfg", 1.0)], quick=(32, 40), thorough=(320, 60)),
              harness=dict(family="core", chains=3, links=T3, params={"short": [["C", "A"]]}))

EXPIRY_RELAY = copy.deepcopy(F.CORE)
EXPIRY_RELAY.update(name="expiryrelay", design=[],
                    gen=dict(module="MCCore.tla", cfgs=[("gen_core_expire_relay.cfg", 1.0)], quick=(32, 40), thorough=(320, 60)),
                    harness=dict(family="core", chains=3, links=T3, params={"short": [["C", "B"]]}))

# A-B and A-C only: the relay chain does not know the destination (C11: "... and it knows the destination; otherwise it
# records an error acknowledgement")
SPARSE = copy.deepcopy(F.CORE)
SPARSE.update(name="sparse", design=[],
              gen=dict(module="MCCore.tla", cfgs=[("gen_core_sparse.cfg", 1.0)], quick=(24, 30), thorough=(240, 50)),
              harness=dict(family="core", chains=3, links=[["A", "B"], ["A", "C"]]))

PROPS = ["C16", "C14", "C20"]


def check(prop, tier, seed, replay):
    if prop == "C16":
        if replay:
            return T.replay(prop, GENESIS, replay)
        # + the BSC and ETH client families: each of their behaviours ends with an Export step (export + re-import of the
        # chain that holds the client after the headers of that behaviour)
        from . import fam_bsc as B, fam_eth as E
        efam = E._fam(tier)
        r = T.merge_runs([(GENESIS, T.run_family(GENESIS, tier, seed)), (GENESIS_APPS, T.run_family(GENESIS_APPS, tier, seed)),
                          (B.FAM, T.run_family(B.FAM, tier, seed)), (efam, T.run_family(efam, tier, seed))])
        return T.verdict(prop, GENESIS, tier, seed, r)
    if prop == "C14":
        if replay:
            return T.replay(prop, EXPIRY, replay)
        from . import fam_status as S
        r = T.merge_runs([(EXPIRY, T.run_family(EXPIRY, tier, seed)), (EXPIRY_RELAY, T.run_family(EXPIRY_RELAY, tier, seed)),
                          (S.FAM, T.run_family(S.FAM, tier, seed))])
        return T.verdict(prop, EXPIRY, tier, seed, r)
    if prop == "C20":
        return check_c20(tier, seed, replay)
    raise C.Inconclusive("no check for %s here" % prop)


# ---------------------------------------------------------------------------------------------------------------
# C20: determinism - the same behaviours executed by two processes must agree step by step (TraceDet.tla)

def _det_sources():
    from . import fam_bsc as B, fam_eth as E, fam_tm as TM
    # (family dict, generation module, generation cfg, share of behaviours, with the family's fixed behaviours)
    return [
        (F.CORE, "MCCore.tla", "gen_core.cfg", 0.3, True),
        (GENESIS, "MCCore.tla", "gen_core_export.cfg", 0.15, True),
        (A.FAM, "MCApps.tla", "gen_apps.cfg", 0.3, True),
        (B.FAM, "MCBsc.tla", "gen_bsc.cfg", 0.5, False),
        (E.FAM, "MCEth.tla", "gen_eth.cfg", 0.3, False),
        (TM.FAM, "MCTm.tla", "gen_tm.cfg", 0.3, False),
    ]


def _det_run(binp, work, tag, fam, behs, shards, env):
    d = os.path.join(work, tag)
    os.makedirs(d, exist_ok=True)
    h = fam["harness"]
    return C.run_harness(binp, d, h["family"], h["chains"], h["links"], behs, shards=shards, extra_env=env, params=h.get("params"))


def check_c20(tier, seed, replay):
    t0 = time.time()
    binp, hkey = C.ensure_harness()
    work = C.new_workdir("det")
    try:
        C.copy_specs(work)
        num, depth = (18, 30) if tier == "quick" else (180, 50)
        bad, steps, ntr, samples, acts = [], 0, 0, [], {}
        sources = _det_sources()
        if replay:
            rp = json.load(open(replay))
            sources = [(dict(name=rp["family"], harness=rp["harness"]), None, None, 1.0, False)]
        for fam, mod, cfg, share, with_fixed in sources:
            if replay:
                behs = [rp["behaviour"]]
            else:
                behs = [b["events"] for b in T.fixed_behaviours(fam)] if with_fixed else []
                behs += C.simulate(work, mod, cfg, max(1, int(num * share)), fam["gen"][tier][1] if not with_fixed else depth, seed * 31 + 7,
                                   timeout=fam["gen"].get("timeout", 600))
            tmp2 = os.path.join(work, "tmp-second")
            os.makedirs(tmp2, exist_ok=True)
            t1 = _det_run(binp, work, fam["name"] + "-1", fam, behs, None, None)
            # second execution: other process layout, scheduler width, temp dir; runs later in wall-clock time
            t2 = _det_run(binp, work, fam["name"] + "-2", fam, behs, 3, {"GOMAXPROCS": "2", "TMPDIR": tmp2})
            shutil.copy(t1, os.path.join(work, "trace.ndjson"))
            shutil.copy(t2, os.path.join(work, "trace2.ndjson"))
            res = C.trace_check(work, "TraceDet.tla", "trace_det.cfg", os.path.join(work, "trace.ndjson"))
            if res.get("n2") != res.get("n"):
                bad.append(dict(tr=0, i=0, v=dict(p="C20", f="executions_differ", d="trace_length"), fam=fam["name"], behs=behs))
            for b in res["bad"]:
                bad.append(dict(b, fam=fam["name"], beh=behs[b["tr"] - 1], harness=fam["harness"]))
            steps += res["steps"]
            ntr += len(behs)
            with open(t1) as fh:
                for k, line in enumerate(fh):
                    rec = json.loads(line)
                    acts[rec["ev"]["act"]] = acts.get(rec["ev"]["act"], 0) + 1
                    if k in (3, 9) and len(samples) < 12:
                        samples.append(dict(family=fam["name"], ev=rec["ev"], code=rec.get("code"), rh=rec.get("rh"), ah=rec.get("ah"), cdig=rec.get("cdig")))
        known = C.load_known()
        viol = [b for b in bad if not C.match_known("C20", b["v"], known)]
        seen = set()
        for b in viol:
            if b["v"]["d"] in seen:
                continue
            seen.add(b["v"]["d"])
            path = C.save_replay("C20", dict(property="C20", family=b["fam"], formula=b["v"]["f"], detail=b["v"]["d"], step=b["i"],
                                             behaviour=(b.get("beh") or [])[:max(b["i"], 1)], harness=b.get("harness")))
            print("VIOLATION property=C20 replay=%s" % path)
            print("  the two executions differ in %s at step %d of a %s behaviour" % (b["v"]["d"], b["i"], b["fam"]))
        cov = dict(states=steps + ntr, transitions=steps, traces_validated_against_impl=2 * ntr, samples=samples,
                   evaluations=steps, distinct_nontrivial=steps,
                   rule="one evaluation = one recorded step executed twice (two processes, GOMAXPROCS 16 vs 2, different TMPDIR and sharding) and "
                        "compared field by field by TLC (TraceDet.tla): code, result fingerprint (log, gas, events), app hash of every chain, projected state, store digests",
                   steps_by_action=acts, explanation="twin-trace equality monitor; the TLA+ part is the comparison, the exploration is the behaviour generation of the other families",
                   exhaustive=False, checker_cmd="tlc TraceDet.tla over two recordings of the same TLC-generated behaviours")
        C.write_evidence("C20", tier, seed, "model_checking", cov, time.time() - t0, len(viol),
                         ["both executions run on this machine and this Go toolchain; block times and keys are fixed by the harness (harness/detchain.go)",
                          "light-client update transactions of BSC / ETH clients are compared in their own families' records where available"])
        return 1 if viol else 0
    finally:
        shutil.rmtree(work, ignore_errors=True)
