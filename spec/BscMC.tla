-------------------------------- MODULE BscMC --------------------------------
(***************************************************************************)
(* Closed system for Bsc: a relayer creates the client at an epoch block    *)
(* and then submits headers - every valid next header (any eligible signer, *)
(* in turn or out of turn, any announced validator set on epoch blocks) and *)
(* every single-field alteration of a valid header.                         *)
(* Used three ways: exhaustive design check (Next), behaviour generation    *)
(* (NextSim under -simulate, evlog printed as JSON) and, through            *)
(* Bsc!StepRes / Bsc!AcceptStmt, by the trace specification.                *)
(***************************************************************************)
EXTENDS Bsc, Json

CONSTANTS U,            \* validator universe (0..K-1; K prime when RandSets is used)
          Epochs,       \* epoch lengths a client may be created with (each > MaxV \div 2)
          StartMults,   \* the client is created at block m * epoch, m \in StartMults
          InitSets,     \* validator sets a client may be created with (exhaustive)
          AnnSets,      \* validator sets an epoch block may announce (exhaustive)
          Gls,          \* gas levels of the creation header
          MaxLen,       \* exhaustive: number of accepted headers explored
          MaxOddTimes,  \* exhaustive: along how many accepted headers with a time not after the parent's the search continues
          ValidPct,     \* simulation: percentage of steps that submit a valid header
          LOG, SimDepth

ASSUME \A e \in Epochs : e > MaxV \div 2

K == Cardinality(U)
Min2(a, b) == IF a < b THEN a ELSE b
Nth(S, i) == CHOOSE v \in S : Pos(S, v) = i          \* i-th smallest, 0-based

\* a consistent recent-signer window of a client created at block n with set S: the creation block and the
\* Half(S) blocks before it, sealed by distinct validators (rotation r)
Window(S, n, r) == {<<n - j, Nth(S, (r + j) % Card(S))>> : j \in 0..Min2(Half(S), n)}

InitEv(ep, m, S, P, R, g) ==
  [act |-> "Init", id |-> 0, epoch |-> ep, num |-> m * ep, gl |-> g, vals |-> S, pend |-> P, rec |-> R,
   root |-> 0, time |-> 3 * m * ep, tag |-> "init"]

\* exhaustive: every combination at gas level "norm"; the other gas levels only change the gas alphabet, one
\* creation each is enough
InitEvents ==
  {InitEv(ep, m, S, P, {}, "norm") : ep \in Epochs, m \in StartMults, S \in InitSets, P \in AnnSets} \cup
  {InitEv(ep, m, S, S, Window(S, m * ep, 0), "norm") : ep \in Epochs, m \in StartMults, S \in InitSets} \cup
  {InitEv(ep, 1, S, S, {}, g) : ep \in {CHOOSE x \in Epochs : TRUE}, S \in {x \in InitSets : Card(x) = 1}, g \in Gls \ {"norm"}}
\* a single validator switches at the epoch block itself: its creation header announces the set it runs with
InitOk(e) == Card(e.vals) = 1 => e.pend = e.vals

-------------------------------------------------------------------------------
LatestTime(s) == (CHOOSE x \in s.cons : x[1] = s.num)[3]
Eligible(s, h_) == {v \in s.vals : ~RecentStmt(h_, s.vals, s.num + 1, v)}

Hdr(id, n, v, d, g, x, t, root, tag) ==
  [act |-> "Hdr", id |-> id, num |-> n, parent |-> "latest", signer |-> v, coinbase |-> "signer", diff |-> d,
   gas |-> g, used |-> "ok", time |-> t, root |-> root, ext |-> [vals |-> x, mal |-> FALSE], wf |-> "ok", tag |-> tag]

\* the valid next header sealed by v, announcing x (x = {} off epoch blocks)
ValidHdr(s, id, root, v, x) ==
  LET n == s.num + 1 IN
  Hdr(id, n, v, TurnDiff(s.vals, n, v), "same", x, LatestTime(s) + 3, root,
      IF InTurn(s.vals, n, v) THEN "valid:inturn" ELSE "valid:noturn")

\* every single-field alteration of a valid header h
Alt(s, h_, h) ==
  LET n == h.num
      other == (0..3) \ {h.diff} IN
     {[h EXCEPT !.num = m, !.tag = "number"] : m \in {n - 1, n + 1}}
\cup {[h EXCEPT !.parent = p, !.tag = "parent:" \o p] : p \in {"grand", "random"}}
\cup {[h EXCEPT !.signer = v, !.diff = TurnDiff(s.vals, n, v),
                 !.tag = IF n < Limit(s.vals) THEN "sealer:recent_low_number"            \* (the tag only steers the
                         ELSE IF ~RecentKept(s, s.vals, n, v) THEN "sealer:recent_beyond_kept"  \* generator's choice)
                         ELSE "sealer:recent"] : v \in s.vals \ Eligible(s, h_)}
\cup {[h EXCEPT !.signer = v, !.tag = "sealer:nonmember"] : v \in U \ s.vals}
\cup {[h EXCEPT !.coinbase = "other", !.tag = "coinbase"]}
\cup {[h EXCEPT !.diff = d, !.tag = "difficulty"] : d \in other}
\cup {[h EXCEPT !.gas = g, !.tag = "gas:" \o g] : g \in GasAlphabet(s.gl) \ {"same"}}
\cup {[h EXCEPT !.used = "over", !.tag = "gasUsed"]}
\cup {[h EXCEPT !.wf = w, !.tag = "wf:" \o w] : w \in {"nonce", "sealBytes", "mixDigest", "uncleHash", "extraShort", "noVanity", "bloomLong", "nonceLong"}}
\cup {[h EXCEPT !.ext.mal = TRUE, !.tag = "ext:malformed"]}
\cup (IF IsEpoch(s, n) THEN {[h EXCEPT !.ext.vals = {}, !.tag = "ext:none_on_epoch"]}
      ELSE {[h EXCEPT !.ext.vals = x, !.tag = "ext:on_non_epoch"] : x \in {s.vals}})
\cup {[h EXCEPT !.time = LatestTime(s), !.tag = "time:not_after_parent"]}

\* exhaustive alphabet in state (s, h_): header ids and roots are the number (keeps the graph finite).
\* Alterations are applied to one valid header per eligible sealer (the announced set does not interact with them).
ValidEvents(s, h_) ==
  LET n == s.num + 1 IN
  {ValidHdr(s, n, n, v, x) : v \in Eligible(s, h_), x \in (IF IsEpoch(s, n) THEN AnnSets ELSE {{}})}
BaseEvents(s, h_) ==
  LET n == s.num + 1 IN
  {ValidHdr(s, n, n, v, IF IsEpoch(s, n) THEN CHOOSE x \in AnnSets : TRUE ELSE {}) : v \in Eligible(s, h_)}
Events(s, h_) == ValidEvents(s, h_) \cup UNION {Alt(s, h_, h) : h \in BaseEvents(s, h_)}
\* the events that can lead to a new state: valid headers and the two alterations that the statement does not forbid
Movers(s, h_) ==
  ValidEvents(s, h_) \cup
  UNION {   (IF IsEpoch(s, h.num) THEN {[h EXCEPT !.ext.vals = {}, !.tag = "ext:none_on_epoch"]} ELSE {})
       \cup (IF Card({x \in s.cons : x[3] # 3 * x[1]}) < MaxOddTimes
             THEN {[h EXCEPT !.time = LatestTime(s), !.tag = "time:not_after_parent"]} ELSE {}) : h \in BaseEvents(s, h_)}
\* a dead client (empty validator set) still receives headers: whatever a former validator seals
AnyHdrs(s) == {Hdr(s.num + 1, s.num + 1, v, d, "same", {}, LatestTime(s) + 3, s.num + 1, "dead_client") : v \in U, d \in {1, 2}}
DeadEvents(s) == IF s.vals = {} THEN AnyHdrs(s) ELSE {}

Init == st = NoClient /\ hs = NoHist /\ evlog = <<>>
Log(e) == evlog' = IF LOG THEN Append(evlog, e) ELSE evlog

\* rejected headers leave the model state unchanged (HdrRes) and the other accepted alterations (nonce, gas limit
\* at the edge of the bounds) lead to the same state as the unaltered header, so only Movers generate successors;
\* the invariants below range over the WHOLE alphabet in every reachable state
Next ==
  \/ ~st.on /\ \E e \in InitEvents : InitOk(e) /\ Do(e) /\ Log(e)
  \/ st.on /\ st.num - hs.start < MaxLen /\ \E e \in Movers(st, hs) : Accept(st, hs, e) /\ Do(e) /\ Log(e)

Spec == Init /\ [][Next]_vars

-------------------------------------------------------------------------------
(* Design-level invariants *)
All(s, h_) == Events(s, h_) \cup DeadEvents(s)

\* the specification's step function decides exactly as the statement (fails where a flag is at "as coded")
Inv_Decision == st.on => \A e \in All(st, hs) : Accept(st, hs, e) = AcceptStmt(st, hs, e)

\* accepted: latest advances by exactly one and is the header, the consensus state of that height is the header's,
\* every other consensus state stays; rejected: nothing changes
Inv_Step == st.on => \A e \in All(st, hs) :
  LET r == HdrRes(st, hs, e) IN
  IF r.ok THEN /\ r.st.num = st.num + 1 /\ r.st.num = e.num /\ r.st.hid = e.id
               /\ ConsAt(r.st, e.num) = {<<e.num, e.root, e.time>>}
               /\ {x \in r.st.cons : x[1] # e.num} = st.cons
               /\ r.st.epoch = st.epoch /\ r.st.gl = st.gl
               /\ ValsAsAnnounced(r.st, HistAfter(st, hs, e, TRUE))
          ELSE r.st = st

Inv_Switch       == st.on => ValsAsAnnounced(st, hs)
Inv_NoDoubleSeal == NoDoubleSeal(hs)
Inv_RecWindow    == st.on => RecWithinWindow(st)
\* the entries the store keeps decide the recency rule exactly as the accepted chain does
Inv_KeptSuffices == st.on => \A v \in st.vals :
                       RecentKept(st, st.vals, st.num + 1, v) = RecentStmt(hs, st.vals, st.num + 1, v)
\* the rule never stalls a chain with a non-empty validator set
Inv_SomeoneCanSeal == (st.on /\ st.vals # {}) => Eligible(st, hs) # {}
Inv_LatestHasCons  == st.on => Card(ConsAt(st, st.num)) = 1

-------------------------------------------------------------------------------
(* Generation: one event per step. *)
\* k "random" members of U: an arithmetic progression modulo the prime K
RandSet(k) == LET o == RandomElement(0..(K - 1))
                  s == RandomElement(1..(K - 1))
              IN {(o + j * s) % K : j \in 0..(k - 1)}
RandAnn(s) == LET r == RandomElement(1..10) IN
              IF r <= 3 THEN s.vals                                   \* unchanged set
              ELSE IF r <= 5 /\ Card(s.vals) > 1 THEN s.vals \ {RandomElement(s.vals)}
              ELSE IF r <= 7 /\ Card(s.vals) < MaxV THEN s.vals \cup {RandomElement(U \ s.vals)}
              ELSE RandSet(RandomElement(1..MaxV))

SimInit(s) ==     \* (a parameter keeps TLC from evaluating this once and for all as a constant)
  LET ep == RandomElement(IF s.on THEN {} ELSE Epochs)
      m  == RandomElement(StartMults)
      S  == RandSet(RandomElement(1..MaxV))
      g  == IF RandomElement(1..5) <= 3 /\ "norm" \in Gls THEN "norm" ELSE RandomElement(Gls)
      w  == RandomElement(1..3)
      P  == IF Card(S) = 1 \/ w = 1 THEN S ELSE RandSet(RandomElement(1..MaxV))
      R  == IF w = 2 THEN {} ELSE Window(S, m * ep, RandomElement(0..(Card(S) - 1)))
  IN InitEv(ep, m, S, P, R, g)

SimHdr ==
  LET n    == st.num + 1
      id   == Len(evlog) + 1
      el   == Eligible(st, hs)
      it   == {v \in el : InTurn(st.vals, n, v)}
      v    == IF it # {} /\ RandomElement(1..2) = 1 THEN RandomElement(it) ELSE RandomElement(el)
      x    == IF IsEpoch(st, n) THEN RandAnn(st) ELSE {}
      base == ValidHdr(st, id, id, v, x)
      gv   == IF st.gl = "norm" /\ RandomElement(1..4) = 1
              THEN [base EXCEPT !.gas = RandomElement({"up_edge", "down_edge"}), !.tag = "valid:gas_edge"] ELSE base
  IN IF el = {} THEN [RandomElement(AnyHdrs(st)) EXCEPT !.id = id, !.root = id]
     ELSE IF RandomElement(1..100) <= ValidPct THEN gv
     ELSE LET alts == {b \in Alt(st, hs, base) :              \* alterations that end the useful part of a behaviour only near its end
                          (b.wf \in TooLong \/ b.tag = "ext:none_on_epoch") => Len(evlog) + 10 > SimDepth}
              \* first the kind of alteration, then one of that kind;
              rare == {b \in alts : b.tag = "sealer:recent_beyond_kept"}   \* the short-lived kind is preferred while it exists
              kind == RandomElement({a.tag : a \in alts})
              a    == IF rare # {} /\ RandomElement(1..3) <= 2 THEN RandomElement(rare)
                      ELSE RandomElement({b \in alts : b.tag = kind})
          IN [a EXCEPT !.id = id, !.root = id]

SimEvent == IF ~st.on THEN SimInit(st) ELSE SimHdr
NextSim == \E e \in {SimEvent} : Do(e) /\ Log(e)

\* prints one behaviour per line when the simulator reaches the requested depth
PrintBehaviour == (Len(evlog) = SimDepth) => PrintT(<<"BEH", ToJson(evlog)>>)
=============================================================================
