\* trace validation against the as-coded model of the current tree (flags: tree_flags_bsc.json)
CONSTANTS
  MaxV = 21
  F_NOWRAP = TRUE
  F_PRUNE_OLD = FALSE
  F_LENGTHS = TRUE
  F_FULLWINDOW = FALSE
SPECIFICATION TraceSpec
INVARIANT Done
CHECK_DEADLOCK FALSE
