\* behaviour generation: one busy channel with two-digit sequences, out-of-order acknowledgements, cleans
CONSTANTS
  Chains = {"A","B","C"}
  Names = {"A","B","C","Z"}
  Ports = {"mock","nft","ghost"}
  BoundPorts = {"mock","nft","mt"}
  Data = {"d1","d2"}
  DecodableData = {"d2"}
  EmptyData = ""
  AckTags = {"mock","unauth","errX","ok"}
  MaxSeq = 13
  F_BIND = FALSE
  F_ACKCB_SRC_ONLY = TRUE
  F_STATUS = TRUE
  F_RELAY_DST_ERRACK = TRUE
  Links <- Links3
  RuleSets <- RuleSetsGen
  Senders = {"A"}
  Dests = {"C"}
  UserRelays = {""}
  UserPorts = {"mock"}
  UserData = {"d1"}
  RuleChains = {"B"}
  AdvOn = TRUE
  ExpirePairs <- NoPairs
  ExportOn = FALSE
  LOG = TRUE
  SimDepth = 40
  SimMode = "long"
INIT Init
NEXT NextSim
INVARIANT PrintBehaviour
CHECK_DEADLOCK FALSE
