CONSTANTS
  Types = {"tm","bsc","eth"}
  Periods = {1, 100, 1209600}
  AgeOffsets = {1, 2, 3}
  BigAges = {1000000}
  Subs = {0, 1, 500000000, 999999999}
  SimDepth = 0
INIT Init
NEXT Next
INVARIANTS Inv_Monotone Inv_Total
CHECK_DEADLOCK FALSE
