------------------------------- MODULE Proofs -------------------------------
(***************************************************************************)
(* C08 - state-proof verification is sound and complete for the three light *)
(* client types (Tendermint / ICS-23, and the Ethereum-style BSC and ETH     *)
(* clients that check a Merkle-Patricia account + storage proof).            *)
(*                                                                          *)
(* This property is a PURE DECISION PROCEDURE.  There is no protocol state   *)
(* that evolves and no interleaving to explore: a verification call reads    *)
(* the client state, the client store and its arguments, and answers yes or  *)
(* no.  What the TLA+ contributes here is                                    *)
(*   (a) the decision, written once (Verify) - the ORACLE against which      *)
(*       every recorded call of the real code is compared by TraceProofs,    *)
(*   (b) the exhaustive CASE TABLE: TLC enumerates the product of client     *)
(*       configurations, counterparty stores, queries and proof descriptors  *)
(*       (ProofsMC) and emits every point as a test for the real code, and   *)
(*   (c) sanity theorems about the decision checked over that whole product. *)
(* It does not contribute an exploration of interleavings, and no claim of   *)
(* that kind is made for C08.                                                *)
(*                                                                          *)
(* Vocabulary (all values are JSON shaped: strings, small integers, tuples,  *)
(* sets, records).                                                           *)
(*   fact   <<kind, s, d, n, v>>   kind in {commit, ack, clean}; the          *)
(*          counterparty stores value v under the protocol key of            *)
(*          (kind, s, d, n).  For clean the key has no sequence (n = 0) and   *)
(*          v IS the clean sequence.  Values are small indices; the harness   *)
(*          turns them into 32-byte hashes / 8-byte sequences.               *)
(*   store  S : sequence over the heights; S[h] = set of facts at height h.  *)
(*   client [type, latest, roots, delay, proc]                               *)
(*          roots  = heights for which the client recorded a consensus state *)
(*          delay  = confirmation delay.  Unit and reference are read off    *)
(*                   the code, per client type:                              *)
(*            tm   ClientState.TimeDelay, nanoseconds of the VERIFYING        *)
(*                 chain's clock, counted from the processed time stored for  *)
(*                 the proof height:  now >= processedTime(h) + delay         *)
(*                 (inclusive).  Abstract unit here: one tick.               *)
(*            bsc  GetDelayBlock() = 2*len(Validators)/3 + 1 (never 0),       *)
(*            eth  ClientState.BlockDelay; both count COUNTERPARTY blocks     *)
(*                 known to the client on top of the proof height:           *)
(*                 latest - h >= delay.  Neither consults the verifying       *)
(*                 chain's height or clock.  ETH's TimeDelay field is not     *)
(*                 consulted at all (it is kept 0 by the harness, DESIGN C08).*)
(*          proc   = set of <<h, tick>>: processed time per recorded height   *)
(*                   (tm only; {} otherwise).                                *)
(*   query  [kind, s, d, n, v, h]  "v is stored under key(kind,s,d,n) at h".  *)
(*   proof  [at, kind, s, d, n, variant]  the bytes handed in: a proof that   *)
(*          was generated at height at for key (kind,s,d,n) of the            *)
(*          counterparty, then altered as variant says.                      *)
(***************************************************************************)
EXTENDS Integers, Sequences, FiniteSets

Kinds == {"commit", "ack", "clean"}
Types == {"tm", "bsc", "eth"}

(* Alterations of the proof bytes.                                          *)
(*   genuine       untouched                                                 *)
(*   relabelled    the key label inside the proof is overwritten with the     *)
(*                 QUERIED key (ICS-23: ExistenceProof.key; MPT:              *)
(*                 storageProof.key).  Identity if the proof was generated    *)
(*                 for the queried key - so it is content-preserving; with    *)
(*                 another key it is the strongest "other key" forgery.      *)
(*   otherStore    same key, same height, but taken from another store        *)
(*                 (another chain's tibc store / another contract's storage)  *)
(*   truncated     ICS-23: bytes cut to 2/3; MPT: last storage node dropped   *)
(*   reordered     ICS-23: the two chained proofs swapped; MPT: node lists    *)
(*                 reversed                                                  *)
(*   valueSwapped  the value embedded in the proof replaced (by the claimed   *)
(*                 value if that differs, else by another one)                *)
(*   empty         ICS-23: zero bytes; MPT: the JSON object {}               *)
(*   garbage       one byte flipped inside the proof material                *)
(*   shadowKey     the key reported with the proof is the queried key with   *)
(*                 one extra leading byte, and the proof material proves the *)
(*                 claimed value at the location that longer key hashes to   *)
(*                 (MPT: a real leaf of the storage trie at                   *)
(*                 keccak256(0x01 || slot); ICS-23: the key label gets the   *)
(*                 extra byte) - nothing about the protocol-defined key      *)
Variants == {"genuine", "relabelled", "otherStore", "truncated", "reordered", "valueSwapped", "empty", "garbage", "shadowKey"}

KeyOf(x) == <<x.kind, x.s, x.d, x.n>>
FactKey(f) == <<f[1], f[2], f[3], f[4]>>
FactOf(q) == <<q.kind, q.s, q.d, q.n, q.v>>

\* a store is a function on keys at every height
WellFormedStore(S) == \A h \in DOMAIN S : \A f, g \in S[h] : FactKey(f) = FactKey(g) => f = g

-----------------------------------------------------------------------------
(* The conjuncts of the statement *)

\* "that height is not above the client's latest height"
HeightOK(cl, h) == h <= cl.latest

\* "the counterparty state whose root the client recorded at the proof height"
RootKnown(cl, h) == h \in cl.roots

\* "the client's confirmation delay (time or blocks) has elapsed"
DelayElapsed(cl, h, now) ==
  IF cl.type = "tm"
  THEN \E p \in cl.proc : p[1] = h /\ now >= p[2] + cl.delay
  ELSE cl.latest - h >= cl.delay

\* A Merkle-Patricia proof is a SET of trie nodes addressed by hash (the clients load them into a
\* node set before walking); the order in which eth_getProof lists them carries no information.
\* An ICS-23 chained proof is positional (proof i is checked against spec i).
NodeSetProof(type) == type \in {"bsc", "eth"}

\* the alteration leaves the content of the proof intact
Intact(type, variant) ==
  \/ variant \in {"genuine", "relabelled"}
  \/ variant = "reordered" /\ NodeSetProof(type)

\* the bytes handed in are a proof for the queried key under the root recorded at the queried height
Establishes(type, q, pf) == pf.at = q.h /\ KeyOf(pf) = KeyOf(q) /\ Intact(type, pf.variant)

\* "the claimed value is stored under the protocol-defined key in the counterparty state"
Holds(S, q) == q.h \in DOMAIN S /\ FactOf(q) \in S[q.h]

(* THE STATEMENT *)
Verify(cl, S, now, q, pf) ==
  /\ HeightOK(cl, q.h)
  /\ RootKnown(cl, q.h)
  /\ DelayElapsed(cl, q.h, now)
  /\ Establishes(cl.type, q, pf)
  /\ Holds(S, q)

\* first conjunct that fails (detail class of a finding; "" when Verify holds)
Why(cl, S, now, q, pf) ==
  IF ~HeightOK(cl, q.h) THEN "above_latest"
  ELSE IF ~RootKnown(cl, q.h) THEN "no_root"
  ELSE IF ~DelayElapsed(cl, q.h, now) THEN "delay"
  ELSE IF pf.at # q.h THEN "otherRoot"
  ELSE IF KeyOf(pf) # KeyOf(q) THEN (IF pf.variant = "relabelled" THEN "otherKey_relabelled" ELSE "otherKey")
  ELSE IF ~Intact(cl.type, pf.variant) THEN pf.variant
  ELSE IF ~Holds(S, q) THEN (IF \E f \in S[q.h] : FactKey(f) = KeyOf(q) THEN "otherValue" ELSE "absent")
  ELSE ""

(* Functional step operator (FAMILY_GUIDE rule 2): configuration + event -> result.  The           *)
(* configuration never changes - there is no next state.                                           *)
StepRes(cfg, ev) ==
  [ok  |-> Verify(cfg.cl, cfg.S, cfg.now, ev.q, ev.pf),
   why |-> Why(cfg.cl, cfg.S, cfg.now, ev.q, ev.pf)]
=============================================================================
