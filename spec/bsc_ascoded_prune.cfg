\* design check, as-coded model: Inv_RecWindow is EXPECTED to fail - when the set shrinks update.go leaves the entry at
\* number-oldLimit in the store for ever (upstream Parlia prunes it before the check). Book-keeping only, no decision depends on it
\* as long as epoch > MaxV/2.
CONSTANTS
  MaxV = 5
  F_NOWRAP = TRUE
  F_PRUNE_OLD = FALSE
  F_LENGTHS = TRUE
  F_FULLWINDOW = TRUE
  U <- U6
  Epochs = {3}
  StartMults = {2}
  InitSets <- InitSetsSel
  AnnSets <- AnnSetsSel
  Tier = 1
  Gls = {"norm"}
  MaxLen = 6
  MaxOddTimes = 0
  ValidPct = 60
  LOG = FALSE
  SimDepth = 0
INIT Init
NEXT Next
INVARIANTS Inv_Step Inv_Switch Inv_LatestHasCons Inv_RecWindow
CHECK_DEADLOCK FALSE
