package harness

import (
	"fmt"
	"math/rand"
	"testing"
	"time"

	clienttypes "github.com/bianjieai/tibc-go/modules/tibc/core/02-client/types"
	abci "github.com/cometbft/cometbft/abci/types"
	simtestutil "github.com/cosmos/cosmos-sdk/testutil/sims"

	"cosmossdk.io/math"
	cmtproto "github.com/cometbft/cometbft/proto/tendermint/types"
	cmttypes "github.com/cometbft/cometbft/types"
	"github.com/cosmos/cosmos-sdk/crypto/keys/ed25519"
	"github.com/cosmos/cosmos-sdk/crypto/keys/secp256k1"
	sdk "github.com/cosmos/cosmos-sdk/types"
	authtypes "github.com/cosmos/cosmos-sdk/x/auth/types"
	banktypes "github.com/cosmos/cosmos-sdk/x/bank/types"

	tibctesting "github.com/bianjieai/tibc-go/modules/tibc/testing"
	"github.com/bianjieai/tibc-go/modules/tibc/testing/mock"
)

var detStartTime = time.Date(2020, 1, 2, 0, 0, 0, 0, time.UTC)

// NewDetCoordinator is tibctesting.NewCoordinator with keys derived from fixed secrets instead of crypto/rand, so
// that two executions of one behaviour - in any process - start from the same genesis and produce the same
// transactions byte for byte (needed for replays and for the determinism property C20).
func NewDetCoordinator(t *testing.T, n int) *tibctesting.Coordinator {
	coord := &tibctesting.Coordinator{T: t, CurrentTime: detStartTime, Chains: map[string]*tibctesting.TestChain{}}
	for i := 0; i < n; i++ {
		id := tibctesting.GetChainID(i)
		coord.Chains[id] = newDetChain(t, coord, id)
	}
	return coord
}

func newDetChain(t *testing.T, coord *tibctesting.Coordinator, chainID string) *tibctesting.TestChain {
	validators := []*cmttypes.Validator{}
	signers := map[string]cmttypes.PrivValidator{}
	for i := 0; i < 4; i++ {
		pv := mock.PV{PrivKey: ed25519.GenPrivKeyFromSecret([]byte(fmt.Sprintf("verif/%s/val/%d", chainID, i)))}
		pk, err := pv.GetPubKey()
		if err != nil {
			t.Fatal(err)
		}
		validators = append(validators, cmttypes.NewValidator(pk, 1))
		signers[pk.Address().String()] = pv
	}
	valSet := cmttypes.NewValidatorSet(validators)

	genAccs := []authtypes.GenesisAccount{}
	genBals := []banktypes.Balance{}
	senders := []tibctesting.SenderAccount{}
	for i := 0; i < tibctesting.MaxAccounts; i++ {
		priv := secp256k1.GenPrivKeyFromSecret([]byte(fmt.Sprintf("verif/%s/acct/%d", chainID, i)))
		acc := authtypes.NewBaseAccount(priv.PubKey().Address().Bytes(), priv.PubKey(), uint64(i), 0)
		amount, _ := math.NewIntFromString("10000000000000000000")
		genAccs = append(genAccs, acc)
		genBals = append(genBals, banktypes.Balance{Address: acc.GetAddress().String(), Coins: sdk.NewCoins(sdk.NewCoin(sdk.DefaultBondDenom, amount))})
		senders = append(senders, tibctesting.SenderAccount{SenderAccount: acc, SenderPrivKey: priv})
	}
	app := tibctesting.SetupWithGenesisValSet(t, valSet, genAccs, chainID, sdk.DefaultPowerReduction, genBals...)
	chain := &tibctesting.TestChain{
		T:              t,
		Coordinator:    coord,
		ChainID:        chainID,
		ChainName:      chainID,
		App:            app,
		ProposedHeader: cmtproto.Header{ChainID: chainID, Height: 1, Time: coord.CurrentTime.UTC()},
		QueryServer:    app.TIBCKeeper,
		TxConfig:       app.GetTxConfig(),
		Codec:          app.AppCodec(),
		Vals:           valSet,
		NextVals:       valSet,
		Signers:        signers,
		SenderPrivKey:  senders[0].SenderPrivKey,
		SenderAccount:  senders[0].SenderAccount,
		SenderAccounts: senders,
	}
	chain.NextBlock()
	return chain
}

// detSendMsgs is TestChain.SendMsgs with a transaction whose bytes do not depend on the wall clock: the repository's
// helper seeds the mock transaction's random memo with time.Now(), which makes transaction size, gas and signature
// differ from run to run. Everything else (one transaction per block, commit, header bookkeeping, clock) is the same.
func detSendMsgs(chain *tibctesting.TestChain, msgs ...sdk.Msg) (*abci.ExecTxResult, error) {
	chain.Coordinator.UpdateTimeForChain(chain)
	defer func() {
		_ = chain.SenderAccount.SetSequence(chain.SenderAccount.GetSequence() + 1)
	}()
	seed := int64(chain.App.LastBlockHeight())*1000003 + int64(chain.SenderAccount.GetAccountNumber())
	tx, err := simtestutil.GenSignedMockTx(rand.New(rand.NewSource(seed)), chain.TxConfig, msgs,
		sdk.Coins{sdk.NewInt64Coin(sdk.DefaultBondDenom, 0)}, simtestutil.DefaultGenTxGas, chain.ChainID,
		[]uint64{chain.SenderAccount.GetAccountNumber()}, []uint64{chain.SenderAccount.GetSequence()}, chain.SenderPrivKey)
	if err != nil {
		return nil, err
	}
	txBytes, err := chain.TxConfig.TxEncoder()(tx)
	if err != nil {
		return nil, err
	}
	resp, err := chain.App.FinalizeBlock(&abci.RequestFinalizeBlock{Height: chain.App.LastBlockHeight() + 1, Time: chain.ProposedHeader.GetTime(),
		NextValidatorsHash: chain.NextVals.Hash(), Txs: [][]byte{txBytes}})
	if err != nil {
		return nil, err
	}
	detCommitBlock(chain, resp)
	if len(resp.TxResults) != 1 {
		return nil, fmt.Errorf("expected one tx result, got %d", len(resp.TxResults))
	}
	res := resp.TxResults[0]
	if res.Code != 0 {
		return res, fmt.Errorf("%s/%d: %q", res.Codespace, res.Code, res.Log)
	}
	chain.Coordinator.IncrementTime()
	return res, nil
}

// detCommitBlock mirrors TestChain.commitBlock (unexported).
func detCommitBlock(chain *tibctesting.TestChain, res *abci.ResponseFinalizeBlock) {
	if _, err := chain.App.Commit(); err != nil {
		chain.T.Fatal(err)
	}
	chain.LastHeader = chain.CurrentTMClientHeader()
	chain.Vals = chain.NextVals
	chain.NextVals = tibctesting.ApplyValSetChanges(chain.T, chain.Vals, res.ValidatorUpdates)
	chain.ProposedHeader = cmtproto.Header{
		ChainID:            chain.ChainID,
		Height:             chain.App.LastBlockHeight() + 1,
		AppHash:            chain.App.LastCommitID().Hash,
		Time:               chain.ProposedHeader.Time,
		ValidatorsHash:     chain.Vals.Hash(),
		NextValidatorsHash: chain.NextVals.Hash(),
		ProposerAddress:    chain.ProposedHeader.ProposerAddress,
	}
}

// detUpdateTMClient is TestChain.UpdateTMClient through detSendMsgs.
func detUpdateTMClient(chain, counterparty *tibctesting.TestChain, chainName string) error {
	header, err := chain.ConstructUpdateTMClientHeader(counterparty, chainName)
	if err != nil {
		return err
	}
	msg, err := clienttypes.NewMsgUpdateClient(chainName, header, chain.SenderAccount.GetAddress())
	if err != nil {
		return err
	}
	_, err = detSendMsgs(chain, msg)
	return err
}
