------------------------------- MODULE TibcApps -------------------------------
(***************************************************************************)
(* The NFT and multi-token transfer applications                            *)
(* (modules/tibc/apps/nft_transfer, modules/tibc/apps/mt_transfer) on top   *)
(* of the packet layer of TibcCore.  Class strings are sequences of         *)
(* '/'-separated segments; determineAwayFromOrigin, getAwayNewClassPath,    *)
(* getBackNewClassPath, ParseClassTrace(..).IBCClass() and                  *)
(* refundPacketToken of keeper/relay.go are transcribed on sequences.       *)
(*                                                                          *)
(* Application state of chain c is led[c]:                                  *)
(*   nft {<<cls,id,owner>>}       cls = <<"n",seg..>> native class,         *)
(*                                      <<"v",seg..>> voucher tibc-hash(path)*)
(*   mt  {<<cls,id,owner,units>>} multi-token balances (owner "esc" = the   *)
(*                                transfer module's escrow account)         *)
(*   sup {<<cls,id,units>>}       multi-token supplies                      *)
(*   tr  {<<seg..>>}              registered class traces (full paths)      *)
(*   den {cls}                    NFT classes (denoms) that exist            *)
(* Ghost state (never consulted by the actions' guards): tg = lineage of    *)
(* every token (which natively minted asset it represents, which chain it   *)
(* came from, which token it left behind there), pk = every application     *)
(* packet with its asset and status.                                        *)
(***************************************************************************)
EXTENDS TibcCore, FiniteSetsExt

CONSTANTS Users,        \* account names; "esc" is the escrow (module) account, "bad" an invalid address
          NftStarts,    \* first segments that begin with the string "nft"
          MtStarts,     \* first segments that begin with the string "mt"
          MaxUnits      \* units that fit into 64 bits at the scale of the run (15 at the big scale, see DESIGN.md 4.2)

VARIABLES led, tg, pk, minted

avars == <<vars, led, tg, pk, minted>>

EmptyLed == [nft |-> {}, mt |-> {}, sup |-> {}, tr |-> {}, den |-> {}]

Starts(k, full) == full[1] \in (IF k = "nft" THEN NftStarts ELSE MtStarts)
Pfx(k) == k

\* determineAwayFromOrigin; "panic" = index out of range in the code
AwayDir(k, full, dst) ==
  IF ~Starts(k, full) \/ Len(full) = 1 THEN "away"
  ELSE IF Len(full) < 3 THEN "panic"
  ELSE IF full[Len(full) - 2] # dst THEN "away" ELSE "back"

\* getAwayNewClassPath
AwayNewPath(k, src, dst, cls) ==
  IF Starts(k, cls) /\ Len(cls) > 1
  THEN SubSeq(cls, 1, Len(cls) - 1) \o <<dst>> \o <<cls[Len(cls)]>>
  ELSE <<Pfx(k), src, dst>> \o cls

\* getBackNewClassPath; "panic" = slice bounds out of range
BackNewPath(cls) ==
  IF Len(cls) = 4 THEN <<cls[4]>>
  ELSE IF Len(cls) < 2 THEN <<"panic">>
  ELSE SubSeq(cls, 1, Len(cls) - 2) \o <<cls[Len(cls)]>>

\* ParseClassTrace(path).IBCClass(): no '/' -> the base class itself, else the hashed voucher class
IBCClass(path) == IF Len(path) = 1 THEN <<"n">> \o path ELSE <<"v">> \o path
Segs(cls) == Tail(cls)

NftOwner(L, cls, id) == IF \E x \in L.nft : x[1] = cls /\ x[2] = id
                        THEN (CHOOSE x \in L.nft : x[1] = cls /\ x[2] = id)[3] ELSE ""
SetNft(S, cls, id, o) == {x \in S : ~(x[1] = cls /\ x[2] = id)} \cup {<<cls, id, o>>}
DelNft(S, cls, id)    == {x \in S : ~(x[1] = cls /\ x[2] = id)}

MtBal(L, cls, id, o) == IF \E x \in L.mt : x[1] = cls /\ x[2] = id /\ x[3] = o
                        THEN (CHOOSE x \in L.mt : x[1] = cls /\ x[2] = id /\ x[3] = o)[4] ELSE 0
MtSup(L, cls, id) == IF \E x \in L.sup : x[1] = cls /\ x[2] = id
                     THEN (CHOOSE x \in L.sup : x[1] = cls /\ x[2] = id)[3] ELSE 0
HasMt(L, cls, id) == \E x \in L.sup : x[1] = cls /\ x[2] = id
SetBal(S, cls, id, o, v) == {x \in S : ~(x[1] = cls /\ x[2] = id /\ x[3] = o)} \cup (IF v = 0 THEN {} ELSE {<<cls, id, o, v>>})
SetSup(S, cls, id, v) == {x \in S : ~(x[1] = cls /\ x[2] = id)} \cup {<<cls, id, v>>}

\* moving units between accounts of one chain (irismod mt TransferOwner): fails on insufficient balance
MtMove(L, cls, id, from, to, n) ==
  IF MtBal(L, cls, id, from) < n THEN [ok |-> FALSE, L |-> L]
  ELSE [ok |-> TRUE, L |-> [L EXCEPT !.mt = SetBal(SetBal(@, cls, id, from, MtBal(L, cls, id, from) - n),
                                                    cls, id, to, MtBal(L, cls, id, to) + (IF from = to THEN 0 ELSE n))]]

-------------------------------------------------------------------------------
(* Application messages and callbacks.  Each returns [ok, L (new ledger), ...].                      *)

MkData(k, cls, id, snd, rcv, away, amt) == [k |-> k, cls |-> cls, id |-> id, snd |-> snd, rcv |-> rcv, away |-> away, amt |-> amt]

\* MsgNftTransfer / MsgMtTransfer -> SendNftTransfer / SendMtTransfer, up to the packet it hands to SendPacket
AppSendPrep(c, L, e) ==
  LET k    == e.k
      full == Segs(e.cls)
      dir  == AwayDir(k, full, e.dst)
      have == IF k = "nft" THEN NftOwner(L, e.cls, e.id) = e.u
              ELSE HasMt(L, e.cls, e.id) /\ MtBal(L, e.cls, e.id, e.u) >= e.amt
      exists == IF k = "nft" THEN NftOwner(L, e.cls, e.id) # "" ELSE HasMt(L, e.cls, e.id)
      L2   == IF k = "nft"
              THEN (IF dir = "away" THEN [L EXCEPT !.nft = SetNft(@, e.cls, e.id, "esc")]
                                    ELSE [L EXCEPT !.nft = DelNft(@, e.cls, e.id)])
              ELSE (IF dir = "away" THEN MtMove(L, e.cls, e.id, e.u, "esc", e.amt).L
                    ELSE [L EXCEPT !.mt = SetBal(@, e.cls, e.id, e.u, MtBal(L, e.cls, e.id, e.u) - e.amt),
                                   !.sup = SetSup(@, e.cls, e.id, MtSup(L, e.cls, e.id) - e.amt)])
  IN [ok   |-> exists /\ e.dst # c /\ dir # "panic" /\ have /\ e.u \in Users,
      L    |-> L2,
      data |-> MkData(k, full, e.id, e.u, e.rcv, dir = "away", IF k = "nft" THEN 1 ELSE e.amt)]

\* OnRecvPacket of the transfer module on the destination; ack = "FAIL" means the callback panics
AppOnRecv(c, L, p) ==
  LET d == p.data  k == d.k IN
  IF d.snd = "" \/ d.rcv = "" THEN [ack |-> "err", L |-> L]
  ELSE IF k = "mt" /\ d.amt = 0 THEN [ack |-> "err", L |-> L]
  ELSE IF d.rcv \notin Users THEN [ack |-> "err", L |-> L]
  ELSE IF d.away
  THEN LET path == AwayNewPath(k, p.src, p.dst, d.cls)
           vcls == <<"v">> \o path
           Lt   == [L EXCEPT !.tr = @ \cup {path}]      \* the trace is registered before minting
       IN IF k = "nft"
          THEN IF NftOwner(L, vcls, d.id) # "" THEN [ack |-> "err", L |-> Lt]   \* duplicate id: error ack, trace stays
               ELSE [ack |-> "ok", L |-> [Lt EXCEPT !.nft = SetNft(@, vcls, d.id, d.rcv), !.den = @ \cup {vcls}]]
          ELSE IF MtSup(L, vcls, d.id) + d.amt > MaxUnits THEN [ack |-> "err", L |-> Lt]
               ELSE [ack |-> "ok", L |-> [Lt EXCEPT !.sup = SetSup(@, vcls, d.id, MtSup(L, vcls, d.id) + d.amt),
                                                   !.mt = SetBal(@, vcls, d.id, d.rcv, MtBal(L, vcls, d.id, d.rcv) + d.amt)]]
  ELSE IF ~Starts(k, d.cls) THEN [ack |-> "err", L |-> L]
  ELSE LET np == BackNewPath(d.cls)
           t  == IBCClass(np) IN
       IF np = <<"panic">> THEN [ack |-> "FAIL", L |-> L]
       ELSE IF k = "nft"
       THEN IF NftOwner(L, t, d.id) = "esc" THEN [ack |-> "ok", L |-> [L EXCEPT !.nft = SetNft(@, t, d.id, d.rcv)]]
            ELSE [ack |-> "err", L |-> L]
       ELSE LET m == MtMove(L, t, d.id, "esc", d.rcv, d.amt) IN
            IF m.ok THEN [ack |-> "ok", L |-> m.L] ELSE [ack |-> "err", L |-> L]

\* OnAcknowledgementPacket on the source: result ack = nothing to do; error ack = refund; ok = FALSE means the
\* callback returns an error and the acknowledgement transaction fails
AppOnAck(c, L, p, a) ==
  LET d == p.data  k == d.k  t == IBCClass(d.cls) IN
  IF a = "ok" THEN [ok |-> TRUE, L |-> L]
  ELSE IF a = "mock" \/ d.snd \notin Users THEN [ok |-> FALSE, L |-> L]
  ELSE IF k = "nft"
  THEN IF d.away
       THEN IF NftOwner(L, t, d.id) = "esc" THEN [ok |-> TRUE, L |-> [L EXCEPT !.nft = SetNft(@, t, d.id, d.snd)]]
            ELSE [ok |-> FALSE, L |-> L]
       ELSE IF NftOwner(L, t, d.id) # "" \/ t \notin L.den THEN [ok |-> FALSE, L |-> L]   \* MintNFT needs the class
            ELSE [ok |-> TRUE, L |-> [L EXCEPT !.nft = SetNft(@, t, d.id, d.snd)]]
  ELSE IF d.away
       THEN LET m == MtMove(L, t, d.id, "esc", d.snd, d.amt) IN [ok |-> m.ok, L |-> m.L]
       ELSE IF ~HasMt(L, t, d.id) \/ MtSup(L, t, d.id) + d.amt > MaxUnits THEN [ok |-> FALSE, L |-> L]
            ELSE [ok |-> TRUE, L |-> [L EXCEPT !.sup = SetSup(@, t, d.id, MtSup(L, t, d.id) + d.amt),
                                               !.mt = SetBal(@, t, d.id, d.snd, MtBal(L, t, d.id, d.snd) + d.amt)]]

-------------------------------------------------------------------------------
(* One step of the composed system for event e.  Result: [ok, r (packet state of e.c), L (ledger of   *)
(* e.c), calls, wack, pkt (the packet a send produced)].                                              *)
NoPkt == [src |-> "", dst |-> "", relay |-> "", port |-> "", seq |-> 0, data |-> ""]
Res(ok, r, L, calls, wack, pkt) == [ok |-> ok, r |-> r, L |-> L, calls |-> calls, wack |-> wack, pkt |-> pkt]

AppStepRes(e) ==
  LET c == e.c  r == cs[c]  L == led[c] IN
  CASE e.act = "Mint" ->       \* user issues the native class if needed and mints a token / units
         IF e.k = "nft"
         THEN IF NftOwner(L, e.cls, e.id) # "" \/ e.cls[1] # "n" THEN Res(FALSE, r, L, {}, {}, NoPkt)
              ELSE Res(TRUE, r, [L EXCEPT !.nft = SetNft(@, e.cls, e.id, e.u), !.den = @ \cup {e.cls}], {}, {}, NoPkt)
         ELSE IF MtSup(L, e.cls, e.id) + e.amt > MaxUnits \/ e.cls[1] # "n" THEN Res(FALSE, r, L, {}, {}, NoPkt)
              ELSE Res(TRUE, r, [L EXCEPT !.sup = SetSup(@, e.cls, e.id, MtSup(L, e.cls, e.id) + e.amt),
                                          !.mt = SetBal(@, e.cls, e.id, e.u, MtBal(L, e.cls, e.id, e.u) + e.amt)], {}, {}, NoPkt)
    [] e.act = "Xfer" ->       \* local transfer between two accounts of one chain
         IF e.k = "nft"
         THEN IF NftOwner(L, e.cls, e.id) = e.u /\ e.to \in Users
              THEN Res(TRUE, r, [L EXCEPT !.nft = SetNft(@, e.cls, e.id, e.to)], {}, {}, NoPkt)
              ELSE Res(FALSE, r, L, {}, {}, NoPkt)
         ELSE LET m == MtMove(L, e.cls, e.id, e.u, e.to, e.amt) IN
              Res(m.ok /\ e.to \in Users /\ e.amt > 0, r, IF m.ok /\ e.to \in Users /\ e.amt > 0 THEN m.L ELSE L, {}, {}, NoPkt)
    [] e.act = "AppSend" ->
         LET prep == AppSendPrep(c, L, e)
             port == e.k
             p    == [src |-> c, dst |-> e.dst, relay |-> e.relay, port |-> port, seq |-> NsR(r, c, e.dst), data |-> prep.data]
             sr   == SendRes(c, r, p) IN
         IF prep.ok /\ sr.ok THEN Res(TRUE, sr.r, prep.L, {}, {}, p) ELSE Res(FALSE, r, L, {}, {}, NoPkt)
    [] e.act = "Recv" ->
         \* every payload of this family is an application data record; the mock port acknowledges anything
         LET ar    == IF e.pkt.port = e.pkt.data.k THEN AppOnRecv(c, L, e.pkt)
                      ELSE IF e.pkt.port = "mock" THEN [ack |-> "mock", L |-> L] ELSE [ack |-> "FAIL", L |-> L]
             pr    == RecvResA(c, r, e.pkt, e.proof, ar.ack) IN
         Res(pr.ok, pr.r, IF pr.ok /\ pr.calls # {} THEN ar.L ELSE L, pr.calls, pr.wack, NoPkt)
    [] e.act = "Ack" ->
         LET aa    == IF e.pkt.port = e.pkt.data.k THEN AppOnAck(c, L, e.pkt, e.ack)
                      ELSE IF e.pkt.port = "mock" THEN [ok |-> TRUE, L |-> L] ELSE [ok |-> FALSE, L |-> L]
             pr    == AckResA(c, r, e.pkt, e.ack, e.proof, IF aa.ok THEN "ok" ELSE "FAIL") IN
         Res(pr.ok, pr.r, IF pr.ok /\ pr.calls # {} THEN aa.L ELSE L, pr.calls, pr.wack, NoPkt)
    [] OTHER -> LET pr == StepRes(e) IN Res(pr.ok, pr.r, L, pr.calls, pr.wack, NoPkt)

-------------------------------------------------------------------------------
(* Ghost lineage.  A token is <<c, cls, id>>; tg maps it to [a (asset = <<origin chain, class, id>>),  *)
(* from (chain it arrived from, "" if minted here), pcls (class it has on that chain)].  Lineage is    *)
(* updated from ledger differences, i.e. from what the chains really did.                              *)
TokensOf(L) == {<<x[1], x[2]>> : x \in L.nft} \cup {<<x[1], x[2]>> : x \in L.sup}
TgOf(c, cls, id) == IF \E x \in tg : x.c = c /\ x.cls = cls /\ x.id = id
                    THEN CHOOSE x \in tg : x.c = c /\ x.cls = cls /\ x.id = id
                    ELSE [c |-> c, cls |-> cls, id |-> id, a |-> <<"?", cls, id>>, from |-> "", pcls |-> <<>>]
PkOf(s, d, n) == IF \E x \in pk : x.s = s /\ x.d = d /\ x.n = n THEN CHOOSE x \in pk : x.s = s /\ x.d = d /\ x.n = n
                 ELSE [s |-> s, d |-> d, n |-> n, k |-> "", a |-> <<"?", <<>>, "">>, st |-> "none", amt |-> 0,
                       ocls |-> <<>>, oid |-> "", snd |-> "", ret |-> FALSE, pcls |-> <<>>, away |-> TRUE,
                       from0 |-> "", pcls0 |-> <<>>]

\* e: event, okR: accepted, L / L2: ledger of e.c before / after, calls: callbacks that ran, wack: acks written,
\* p: the packet produced by a successful AppSend (NoPkt otherwise)
GhostNext(e, okR, L, L2, calls, wack, p) ==
  LET c     == e.c
      newT  == TokensOf(L2) \ TokensOf(L)
      goneT == TokensOf(L) \ TokensOf(L2)
      inPk  == IF e.act \in {"Recv", "Ack"} THEN PkOf(e.pkt.src, e.pkt.dst, e.pkt.seq) ELSE PkOf("", "", 0)
      newTg == {[c |-> c, cls |-> t[1], id |-> t[2],
                 a |-> IF e.act = "Mint" THEN <<c, t[1], t[2]>> ELSE inPk.a,
                 from |-> IF e.act = "Recv" THEN e.pkt.src ELSE IF e.act = "Ack" THEN inPk.from0 ELSE "",
                 pcls |-> IF e.act = "Recv" THEN inPk.ocls ELSE IF e.act = "Ack" THEN inPk.pcls0 ELSE <<>>] : t \in newT}
      tg1   == {x \in tg : ~(x.c = c /\ <<x.cls, x.id>> \in goneT)} \cup newTg
      sentTok == TgOf(c, e.cls, e.id)
      pk1   == IF e.act = "AppSend" /\ okR
               THEN pk \cup {[s |-> p.src, d |-> p.dst, n |-> p.seq, k |-> e.k, a |-> sentTok.a, st |-> "flight",
                              amt |-> p.data.amt, ocls |-> e.cls, oid |-> e.id, snd |-> e.u,
                              ret |-> (sentTok.from = e.dst /\ sentTok.from # ""), pcls |-> sentTok.pcls, away |-> p.data.away,
                              from0 |-> sentTok.from, pcls0 |-> sentTok.pcls]}
               ELSE pk
      \* status changes are driven by the callbacks that really ran and the acknowledgements really written
      stOf(x) == IF okR /\ e.act = "Recv" /\ <<x.s, x.d, x.n>> = <<e.pkt.src, e.pkt.dst, e.pkt.seq>> /\ x.st = "flight"
                 THEN (IF \E w \in wack : w[4] = "ok" THEN "ok"
                       ELSE IF wack # {} THEN "err" ELSE x.st)
                 ELSE IF okR /\ e.act = "Ack" /\ <<x.s, x.d, x.n>> = <<e.pkt.src, e.pkt.dst, e.pkt.seq>> /\ e.c = x.s /\ calls # {}
                 THEN "done" ELSE x.st
  IN /\ tg' = tg1
     /\ pk' = {[x EXCEPT !.st = stOf(x)] : x \in pk1}
     /\ minted' = IF e.act = "Mint" /\ okR
                  THEN (IF e.k = "nft" THEN minted \cup {<<<<c, e.cls, e.id>>, "nft", 1>>}
                        ELSE LET a == <<c, e.cls, e.id>>
                                 old == IF \E m \in minted : m[1] = a THEN (CHOOSE m \in minted : m[1] = a)[3] ELSE 0
                             IN {m \in minted : m[1] # a} \cup {<<a, "mt", old + e.amt>>})
                  ELSE minted

-------------------------------------------------------------------------------
(* Token-level properties, evaluated on the (real or model) ledgers of all chains.                    *)
AssetOfTok(c, cls, id) == TgOf(c, cls, id).a
Flying(a, k) == {x \in pk : x.a = a /\ x.k = k /\ x.st \in {"flight", "err"}}

\* C04: every natively minted NFT has exactly one holder: a user-owned token on some chain, or a packet
NftHolders(a) == UNION {{<<c, x[1], x[2]>> : x \in {y \in led[c].nft : y[3] # "esc" /\ AssetOfTok(c, y[1], y[2]) = a}} : c \in Chains}
Inv_C04 == \A m \in minted : m[2] = "nft" => Cardinality(NftHolders(m[1])) + Cardinality(Flying(m[1], "nft")) = 1

\* C05: user-held units of a native multi-token over all chains plus units in flight = units minted natively
MtHeld(a) == UNION {{<<c, x[1], x[2], x[3], x[4]>> : x \in {y \in led[c].mt : y[3] # "esc" /\ AssetOfTok(c, y[1], y[2]) = a}} : c \in Chains}
SumLast(S) == FoldSet(LAMBDA x, acc : acc + x[Len(x)], 0, S)
MtFlyingUnits(a) == FoldSet(LAMBDA x, acc : acc + x.amt, 0, Flying(a, "mt"))
Inv_C05 == \A m \in minted : m[2] = "mt" => SumLast(MtHeld(m[1])) + MtFlyingUnits(m[1]) = m[3]
\* supplies are the sum of balances, per chain and token
Inv_C05sup == \A c \in Chains : \A z \in led[c].sup :
                 SumLast({x \in led[c].mt : x[1] = z[1] /\ x[2] = z[2]}) = z[3]
=============================================================================
