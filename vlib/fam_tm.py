"""Family "tm": property C07 (07-tendermint client update accepted iff the light-client rule).

spec/TmClient.tla      the rule (Accept), the code-ordered decision (Check) and the functional step (UpdateRes)
spec/TmClientMC.tla    closed system: exhaustive Next (design check) and NextSim (behaviour generation)
harness/tm.go          real simapp chain, real signed headers, real MsgUpdateClient, projection of the client store
spec/TraceTm.tla       every recorded step against the rule: decision both ways and the post-state formulas
"""
from . import tracefam as T

FAM = dict(
    name="tm",
    design=[
        # every header of a small universe (3 heights, 3 <<revision, trusted revision>> pairs, all times of the grid,
        # 2 validator sets with all their signer subsets, 4 trusted heights, 2 trusted sets, 2 next sets) against every
        # reachable client store.
        # quick: one parameter set (period 2, drift 1), clock 1..3, trust levels 1/3 and 2/3: 43 stores x 5 760 headers.
        # thorough: two parameter sets (1/3, period 2, drift 1; 2/3, period 3, drift 2), clock 1..4, trust levels
        #           1/3, 1/2 and 2/3: 353 stores x 8 064 headers (2 838 741 transitions, ~30 CPU-minutes).
        #           (clock 1..5 / MaxT 7: 505 stores, 4 645 221 transitions, ~40 CPU-minutes - also passes.)
        dict(role="intended", module="MCTm.tla", cfg="tm_design.cfg",
             overrides_quick={"MaxNow": "3", "MaxT": "4", "ParSel": "1"},
             overrides_thorough={"MaxNow": "4", "MaxT": "6", "ParSel": "2"}, timeout_quick=900, timeout_thorough=3400),
    ],
    # (number of behaviours, events per behaviour); the first event of a behaviour creates the client
    gen=dict(module="MCTm.tla", cfgs=[("gen_tm.cfg", 1.0)], quick=(64, 45), thorough=(1280, 45), timeout=3000),
    trace=dict(module="TraceTm.tla", cfg="trace_tm.cfg"),
    harness=dict(family="tm", chains=1, links=[]),
    assumptions=[
        "validator sets and app hashes are identified by small ids (hashes are treated as injective); 4 validators, powers 1..3, "
        "11 validator sets; trust levels 1/3, 1/2, 2/3 (levels above 2/3 are outside the stated bound)",
        "time is a grid of ticks mapped linearly onto real timestamps (1 ns, 1 s or 1 h per tick, chosen per behaviour); "
        "every comparison of the rule is exercised at equality and one tick either side",
        "all signatures in a commit are genuine ed25519 signatures of the chosen validators (absent otherwise); forged or "
        "malformed signatures, nil votes and duplicate votes are outside this family",
        "real code is exercised only on the behaviours replayed (TLC simulation of TmClientMC + fixed regression behaviours)",
        "cosmos-sdk BaseApp atomicity, cometbft's ed25519 / commit verification primitives, TLC and the harness projection are trusted",
    ],
)

PROPS = ["C07"]


def check(prop, tier, seed, replay):
    if replay:
        return T.replay(prop, FAM, replay)
    r = T.run_family(FAM, tier, seed)
    # vacuity guard: the run must contain accepted and rejected updates
    acts = r.get("acts", {})
    acc = sum(v for k, v in acts.items() if k.startswith("Update:") and k.endswith(":ok"))
    rej = sum(v for k, v in acts.items() if k.startswith("Update:") and k.endswith(":rej"))
    if acc == 0 or rej == 0:
        from . import common as C
        raise C.Inconclusive("vacuous run: %d accepted and %d rejected header submissions" % (acc, rej))
    return T.verdict(prop, FAM, tier, seed, r, extra_cov=dict(headers_accepted=acc, headers_rejected=rej))
