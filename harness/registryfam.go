package harness

// Family "registry" (property C15): who may create / upgrade clients, register relayers, change the
// routing rules and update clients.
//
// Chain A is the chain under test. Chains B and C are real Tendermint test chains that supply genuine
// client states, consensus states and headers. Abstract chain names: B -> chain B, C -> chain C,
// Z -> a name nobody runs ("ghostchainz"), whose Tendermint payloads are taken from chain C.
// Abstract accounts: "gov" = the governance module account (the authority; it has no key), a1..a3 =
// funded accounts of chain A.
//
// Delivery:
//   signer gov            -> the message is built with Authority = gov address, round-tripped through the
//                            application codec (as a transaction decoder would), ValidateBasic is run (as the
//                            transaction / proposal submission would), then the real MsgServer is called on a
//                            branched context that is written only on success; then a block is committed
//   signer aN, as "self"  -> Authority = aN's address, signed by aN, delivered through BaseApp
//   signer aN, as "gov"   -> Authority = gov address, signed by aN, delivered through BaseApp
//   UpdateClient          -> always through BaseApp, signed by the chosen account
// This file contains no oracle: it builds inputs, calls the real code and logs what happened.

import (
	"crypto/sha256"
	"encoding/hex"
	"encoding/json"
	"fmt"
	"sort"
	"strings"
	"testing"

	storetypes "cosmossdk.io/store/types"
	abci "github.com/cometbft/cometbft/abci/types"
	codectypes "github.com/cosmos/cosmos-sdk/codec/types"
	sdk "github.com/cosmos/cosmos-sdk/types"
	authtypes "github.com/cosmos/cosmos-sdk/x/auth/types"
	govtypes "github.com/cosmos/cosmos-sdk/x/gov/types"
	"github.com/cosmos/gogoproto/proto"

	clienttypes "github.com/bianjieai/tibc-go/modules/tibc/core/02-client/types"
	commitmenttypes "github.com/bianjieai/tibc-go/modules/tibc/core/23-commitment/types"
	host "github.com/bianjieai/tibc-go/modules/tibc/core/24-host"
	routingtypes "github.com/bianjieai/tibc-go/modules/tibc/core/26-routing/types"
	"github.com/bianjieai/tibc-go/modules/tibc/core/exported"
	tibckeeper "github.com/bianjieai/tibc-go/modules/tibc/core/keeper"
	coretypes "github.com/bianjieai/tibc-go/modules/tibc/core/types"
	tmtypes "github.com/bianjieai/tibc-go/modules/tibc/light-clients/07-tendermint/types"
	bsctypes "github.com/bianjieai/tibc-go/modules/tibc/light-clients/08-bsc/types"
	ethtypes "github.com/bianjieai/tibc-go/modules/tibc/light-clients/09-eth/types"
	tibctesting "github.com/bianjieai/tibc-go/modules/tibc/testing"
)

type regEv struct {
	Act      string   `json:"act"`
	Signer   string   `json:"signer"`
	As       string   `json:"as"`
	Name     string   `json:"name"`
	Ctype    string   `json:"ctype"`
	Payload  string   `json:"payload"`
	Relayers []string `json:"relayers"`
	Rules    []string `json:"rules"`
	Header   string   `json:"header"`
}

type regSt struct {
	Clients  [][]interface{} `json:"clients"`  // [name, type, latest height]
	Relayers [][]string      `json:"relayers"` // [name, account]
	Rules    []string        `json:"rules"`
}

type regRec struct {
	Tr   int                    `json:"tr"`
	I    int                    `json:"i"`
	Ev   map[string]interface{} `json:"ev"` // the event as generated, plus "info" (what the harness concretised)
	Code uint32                 `json:"code"`
	Log  string                 `json:"log"`
	St   regSt                  `json:"st"`
	Dig  string                 `json:"dig"`  // digest of the whole tibc store
	Cdig map[string]string      `json:"cdig"` // per chain name: digest of its client sub-store ("absent" if empty)
	Nrel int                    `json:"nrel"` // number of relayer entries in the store (all chain names)
}

var regNames = []string{"B", "C", "Z"}

type regRunner struct {
	t     *testing.T
	n     *Net
	a     *tibctesting.TestChain
	srv   coretypes.MsgServer
	gov   string
	real  map[string]string                 // abstract chain name -> real chain name
	cp    map[string]*tibctesting.TestChain // abstract chain name -> chain that supplies Tendermint data
	other map[string]*tibctesting.TestChain // a different chain (for headers of the wrong chain)
	synth uint64                            // counter for synthetic BSC / ETH heights
}

func (r *regRunner) acctIndex(name string) int {
	switch name {
	case "a1":
		return 1
	case "a2":
		return 2
	case "a3":
		return 3
	}
	r.t.Fatalf("unknown account %q", name)
	return 0
}

func (r *regRunner) addr(name string) string {
	if name == "gov" {
		return r.gov
	}
	return r.a.SenderAccounts[r.acctIndex(name)].SenderAccount.GetAddress().String()
}

func (r *regRunner) absAcct(addr string) string {
	for _, nm := range []string{"a1", "a2", "a3"} {
		if r.addr(nm) == addr {
			return nm
		}
	}
	if addr == r.gov {
		return "gov"
	}
	return addr
}

var emptyUncleHash, _ = hex.DecodeString("1dcc4de8dec75d7aab85b567b6ccd41ad312451b948a7413f0a142fd40d49347")

// clientPayload builds a client state and consensus state of the requested type.
func (r *regRunner) clientPayload(name, ctype string) (exported.ClientState, exported.ConsensusState) {
	switch ctype {
	case "tm":
		cp := r.cp[name]
		r.n.Coord.CommitBlock(cp) // a fresh height every time
		height := cp.LastHeader.GetHeight().(clienttypes.Height)
		cs := tmtypes.NewClientState(cp.ChainID, tibctesting.DefaultTrustLevel, tibctesting.TrustingPeriod,
			tibctesting.UnbondingPeriod, tibctesting.MaxClockDrift, height, commitmenttypes.GetSDKSpecs(), tibctesting.Prefix, 0)
		return cs, cp.LastHeader.ConsensusState()
	case "bsc":
		r.synth++
		h := clienttypes.NewHeight(0, 200*r.synth)
		extra := make([]byte, 32+3*20+65) // vanity + three validators + seal
		for i := range extra {
			extra[i] = byte(i)
		}
		hdr := bsctypes.Header{ParentHash: make([]byte, 32), UncleHash: emptyUncleHash, Coinbase: make([]byte, 20), Root: make([]byte, 32),
			TxHash: make([]byte, 32), ReceiptHash: make([]byte, 32), Bloom: make([]byte, 256), Difficulty: 2, Height: h,
			GasLimit: 1000, GasUsed: 0, Time: 1700000000 + r.synth, Extra: extra, MixDigest: make([]byte, 32), Nonce: make([]byte, 8)}
		cs := &bsctypes.ClientState{Header: hdr, ChainId: 56, Epoch: 200, BlockInteval: 3, Validators: [][]byte{extra[32:52], extra[52:72], extra[72:92]},
			ContractAddress: []byte("0x00"), TrustingPeriod: 1 << 40}
		return cs, &bsctypes.ConsensusState{Timestamp: hdr.Time, Number: h, Root: hdr.Root}
	case "eth":
		r.synth++
		h := clienttypes.NewHeight(0, 1000+r.synth)
		hdr := ethtypes.Header{ParentHash: make([]byte, 32), UncleHash: emptyUncleHash, Coinbase: make([]byte, 20), Root: make([]byte, 32),
			TxHash: make([]byte, 32), ReceiptHash: make([]byte, 32), Bloom: make([]byte, 256), Difficulty: "2", Height: h,
			GasLimit: 1000, GasUsed: 0, Time: 1700000000 + r.synth, Extra: []byte{}, MixDigest: make([]byte, 32), Nonce: 0, BaseFee: "7"}
		cs := &ethtypes.ClientState{Header: hdr, ChainId: 1, ContractAddress: []byte("0x00"), TrustingPeriod: 1 << 40, TimeDelay: 0, BlockDelay: 1}
		return cs, &ethtypes.ConsensusState{Timestamp: hdr.Time, Number: h, Root: hdr.Root}
	}
	r.t.Fatalf("unknown client type %q", ctype)
	return nil, nil
}

// payloadAnys returns the two Any values of a create / upgrade message and the height the payload carries.
func (r *regRunner) payloadAnys(ev *regEv) (*codectypes.Any, *codectypes.Any, uint64) {
	cs, cons := r.clientPayload(ev.Name, ev.Ctype)
	csAny, err := clienttypes.PackClientState(cs)
	if err != nil {
		r.t.Fatal(err)
	}
	consAny, err := clienttypes.PackConsensusState(cons)
	if err != nil {
		r.t.Fatal(err)
	}
	h := cs.GetLatestHeight().GetRevisionHeight()
	switch ev.Payload {
	case "valid":
	case "garbage": // the right type URL, bytes that are not a client state
		csAny = &codectypes.Any{TypeUrl: csAny.TypeUrl, Value: []byte{0xff, 0xff, 0xff, 0x07, 0x01}}
	case "wrongkind": // a consensus state where a client state belongs
		csAny = consAny
	case "mixedcons": // client state of the requested type, consensus state of the type the stored client has
		ctx := r.a.GetContext()
		if stored, ok := r.a.App.TIBCKeeper.ClientKeeper.GetClientState(ctx, r.real[ev.Name]); ok {
			st := map[string]string{exported.Tendermint: "tm", exported.BSC: "bsc", exported.ETH: "eth"}[stored.ClientType()]
			if st != "" && st != ev.Ctype {
				_, cons2 := r.clientPayload(ev.Name, st)
				if consAny, err = clienttypes.PackConsensusState(cons2); err != nil {
					r.t.Fatal(err)
				}
			}
		}
	default:
		r.t.Fatalf("unknown payload class %q", ev.Payload)
	}
	return csAny, consAny, h
}

// roundTrip passes a message through the application codec, as the transaction decoder would.
func (r *regRunner) roundTrip(in proto.Message, out proto.Message) error {
	bz, err := r.a.App.AppCodec().Marshal(in)
	if err != nil {
		return err
	}
	return r.a.App.AppCodec().Unmarshal(bz, out)
}

// direct delivers an authority message to the real MsgServer on a branched context.
func (r *regRunner) direct(msg sdk.Msg) *abci.ExecTxResult {
	res := &abci.ExecTxResult{}
	fail := func(code uint32, stage string, err error) *abci.ExecTxResult {
		res.Code, res.Log = code, stage+": "+err.Error()
		r.n.Coord.CommitBlock(r.a)
		return res
	}
	ctx := r.a.GetContext()
	cctx, write := ctx.CacheContext()
	cctx = cctx.WithEventManager(sdk.NewEventManager())
	var err error
	switch m := msg.(type) {
	case *clienttypes.MsgCreateClient:
		var m2 clienttypes.MsgCreateClient
		if err = r.roundTrip(m, &m2); err != nil {
			return fail(3, "decode", err)
		}
		if err = m2.ValidateBasic(); err != nil {
			return fail(2, "validate_basic", err)
		}
		_, err = r.srv.CreateClient(cctx, &m2)
	case *clienttypes.MsgUpgradeClient:
		var m2 clienttypes.MsgUpgradeClient
		if err = r.roundTrip(m, &m2); err != nil {
			return fail(3, "decode", err)
		}
		if err = m2.ValidateBasic(); err != nil {
			return fail(2, "validate_basic", err)
		}
		_, err = r.srv.UpgradeClient(cctx, &m2)
	case *clienttypes.MsgRegisterRelayer:
		var m2 clienttypes.MsgRegisterRelayer
		if err = r.roundTrip(m, &m2); err != nil {
			return fail(3, "decode", err)
		}
		if err = m2.ValidateBasic(); err != nil {
			return fail(2, "validate_basic", err)
		}
		_, err = r.srv.RegisterRelayer(cctx, &m2)
	case *routingtypes.MsgSetRoutingRules:
		var m2 routingtypes.MsgSetRoutingRules
		if err = r.roundTrip(m, &m2); err != nil {
			return fail(3, "decode", err)
		}
		if err = m2.ValidateBasic(); err != nil {
			return fail(2, "validate_basic", err)
		}
		_, err = r.srv.SetRoutingRules(cctx, &m2)
	default:
		r.t.Fatalf("direct: unsupported message %T", msg)
	}
	if err != nil {
		return fail(1, "msg_server", err)
	}
	write()
	r.n.Coord.CommitBlock(r.a)
	return res
}

// baseapp delivers msgs in a transaction signed by account acct of chain A.
func (r *regRunner) baseapp(acct string, msgs ...sdk.Msg) *abci.ExecTxResult {
	idx := r.acctIndex(acct)
	// the test helper counts sequences itself and assumes every transaction passes the ante handler; re-read the real one
	sa := r.a.SenderAccounts[idx].SenderAccount
	if stored := r.a.App.AccountKeeper.GetAccount(r.a.GetContext(), sa.GetAddress()); stored != nil {
		if err := sa.SetSequence(stored.GetSequence()); err != nil {
			r.t.Fatal(err)
		}
	}
	return r.n.Deliver("A", idx, msgs...)
}

// header builds the header Any of an UpdateClient event and returns the height it carries.
func (r *regRunner) header(ev *regEv) (*codectypes.Any, uint64) {
	name := r.real[ev.Name]
	src := r.cp[ev.Name]
	if ev.Header == "wrongchain" {
		src = r.other[ev.Name]
	}
	r.n.Coord.CommitBlock(src) // a header newer than anything a client can know
	last := src.LastHeader.GetHeight().(clienttypes.Height)
	trusted := clienttypes.NewHeight(0, last.RevisionHeight-1)
	if cs, found := r.a.App.TIBCKeeper.ClientKeeper.GetClientState(r.a.GetContext(), name); found && cs.ClientType() == exported.Tendermint &&
		ev.Header != "wrongchain" {
		trusted = cs.GetLatestHeight().(clienttypes.Height)
	}
	shared, err := r.a.ConstructUpdateTMClientHeaderWithTrustedHeight(src, name, trusted)
	if err != nil {
		r.t.Fatalf("construct header: %v", err)
	}
	// the helper returns the counterparty's own LastHeader object: work on a copy
	bz, err := shared.Marshal()
	if err != nil {
		r.t.Fatal(err)
	}
	hdr := &tmtypes.Header{}
	if err := hdr.Unmarshal(bz); err != nil {
		r.t.Fatal(err)
	}
	switch ev.Header {
	case "valid", "wrongchain":
	case "badsig":
		for i := range hdr.Commit.Signatures {
			if len(hdr.Commit.Signatures[i].Signature) > 0 {
				hdr.Commit.Signatures[i].Signature[7] ^= 0x5a
				break
			}
		}
	case "badtrust": // a trusted height below the newest one for which the client holds no consensus state
		hh := trusted.RevisionHeight - 1
		for ; hh > 1; hh-- {
			if _, found := r.a.App.TIBCKeeper.ClientKeeper.GetClientConsensusState(r.a.GetContext(), name, clienttypes.NewHeight(0, hh)); !found {
				break
			}
		}
		hdr.TrustedHeight = clienttypes.NewHeight(0, hh)
	case "garbage":
		anyHdr, err := clienttypes.PackHeader(hdr)
		if err != nil {
			r.t.Fatal(err)
		}
		return &codectypes.Any{TypeUrl: anyHdr.TypeUrl, Value: []byte{0xff, 0xff, 0xff, 0x07, 0x01}}, 0
	default:
		r.t.Fatalf("unknown header class %q", ev.Header)
	}
	anyHdr, err := clienttypes.PackHeader(hdr)
	if err != nil {
		r.t.Fatal(err)
	}
	return anyHdr, hdr.GetHeight().GetRevisionHeight()
}

func typeAbs(t string) string {
	switch t {
	case exported.Tendermint:
		return "tm"
	case exported.BSC:
		return "bsc"
	case exported.ETH:
		return "eth"
	}
	return t
}

func (r *regRunner) project(rec *regRec) {
	ctx := r.a.GetContext()
	ck := r.a.App.TIBCKeeper.ClientKeeper
	rec.St = regSt{Clients: [][]interface{}{}, Relayers: [][]string{}, Rules: []string{}}
	rec.Cdig = map[string]string{}
	for _, nm := range regNames {
		real := r.real[nm]
		if cs, found := ck.GetClientState(ctx, real); found {
			rec.St.Clients = append(rec.St.Clients, []interface{}{nm, typeAbs(cs.ClientType()), cs.GetLatestHeight().GetRevisionHeight()})
		}
		rel := []string{}
		for _, a := range ck.GetRelayers(ctx, real) {
			rel = append(rel, r.absAcct(a))
		}
		sort.Strings(rel)
		for _, a := range rel {
			rec.St.Relayers = append(rec.St.Relayers, []string{nm, a})
		}
		// digest of this client's sub-store
		hsh := sha256.New()
		cnt := 0
		it := storetypes.KVStorePrefixIterator(r.n.tibcStore("A"), []byte(string(host.KeyClientStorePrefix)+"/"+real+"/"))
		for ; it.Valid(); it.Next() {
			fmt.Fprintf(hsh, "%d|%x|%d|%x;", len(it.Key()), it.Key(), len(it.Value()), it.Value())
			cnt++
		}
		it.Close()
		if cnt == 0 {
			rec.Cdig[nm] = "absent"
		} else {
			rec.Cdig[nm] = hex.EncodeToString(hsh.Sum(nil))[:16]
		}
	}
	rec.Nrel = len(ck.GetAllRelayers(ctx))
	if rules, ok := r.a.App.TIBCKeeper.RoutingKeeper.GetRoutingRules(ctx); ok {
		for _, ru := range rules {
			rec.St.Rules = append(rec.St.Rules, r.absRule(ru))
		}
	}
	rec.Dig = r.n.StoreDigest("A", host.StoreKey)
}

// rules are written with abstract chain names; B, C, Z are replaced field-wise by the real names
func (r *regRunner) realRule(ru string) string {
	f := strings.Split(ru, ",")
	for i := range f {
		if x, ok := r.real[f[i]]; ok {
			f[i] = x
		}
	}
	return strings.Join(f, ",")
}

func (r *regRunner) absRule(ru string) string {
	f := strings.Split(ru, ",")
	for i := range f {
		for _, nm := range regNames {
			if r.real[nm] == f[i] {
				f[i] = nm
			}
		}
	}
	return strings.Join(f, ",")
}

func init() { Families["registry"] = runRegistry }

func runRegistry(t *testing.T, inp *Input, tr int, beh []json.RawMessage, out func(interface{})) {
	nt := NewNet(t, 3, nil)
	r := &regRunner{t: t, n: nt, a: nt.Chains["A"], gov: authtypes.NewModuleAddress(govtypes.ModuleName).String()}
	r.srv = tibckeeper.NewMsgServerImpl(*r.a.App.TIBCKeeper)
	r.real = map[string]string{"B": nt.Real["B"], "C": nt.Real["C"], "Z": "ghostchainz"}
	r.cp = map[string]*tibctesting.TestChain{"B": nt.Chains["B"], "C": nt.Chains["C"], "Z": nt.Chains["C"]}
	r.other = map[string]*tibctesting.TestChain{"B": nt.Chains["C"], "C": nt.Chains["B"], "Z": nt.Chains["B"]}

	i := 0
	emit := func(ev map[string]interface{}, res *abci.ExecTxResult) {
		rec := &regRec{Tr: tr, I: i, Ev: ev}
		i++
		if res != nil {
			rec.Code = res.Code
			if res.Code != 0 {
				rec.Log = res.Log
				if len(rec.Log) > 240 {
					rec.Log = rec.Log[:240]
				}
			}
		}
		r.project(rec)
		out(rec)
	}
	emit(map[string]interface{}{"act": "Reset", "info": map[string]interface{}{"h": 0, "via": ""}}, nil)

	for _, raw := range beh {
		var ev regEv
		if err := json.Unmarshal(raw, &ev); err != nil {
			t.Fatalf("bad registry event %s: %v", raw, err)
		}
		echo := map[string]interface{}{}
		if err := json.Unmarshal(raw, &echo); err != nil {
			t.Fatal(err)
		}
		info := map[string]interface{}{"h": 0, "via": "baseapp"}
		echo["info"] = info

		// whose address the message names as authority
		authority := r.gov
		if ev.Signer != "gov" && ev.As == "self" {
			authority = r.addr(ev.Signer)
		}
		var msg sdk.Msg
		switch ev.Act {
		case "CreateClient":
			csAny, consAny, h := r.payloadAnys(&ev)
			info["h"] = h
			msg = &clienttypes.MsgCreateClient{Title: "create client", Description: "conformance harness", ChainName: r.real[ev.Name],
				ClientState: csAny, ConsensusState: consAny, Authority: authority}
		case "UpgradeClient":
			csAny, consAny, h := r.payloadAnys(&ev)
			info["h"] = h
			msg = &clienttypes.MsgUpgradeClient{Title: "upgrade client", Description: "conformance harness", ChainName: r.real[ev.Name],
				ClientState: csAny, ConsensusState: consAny, Authority: authority}
		case "RegisterRelayer":
			rel := []string{}
			for _, a := range ev.Relayers {
				rel = append(rel, r.addr(a))
			}
			msg = &clienttypes.MsgRegisterRelayer{Title: "register relayers", Description: "conformance harness", ChainName: r.real[ev.Name],
				Relayers: rel, Authority: authority}
		case "SetRoutingRules":
			rules := []string{}
			for _, ru := range ev.Rules {
				rules = append(rules, r.realRule(ru))
			}
			msg = &routingtypes.MsgSetRoutingRules{Title: "routing rules", Description: "conformance harness", Rules: rules, Authority: authority}
		case "UpdateClient":
			anyHdr, h := r.header(&ev)
			info["h"] = h
			msg = &clienttypes.MsgUpdateClient{ChainName: r.real[ev.Name], Header: anyHdr, Signer: r.addr(ev.Signer)}
		default:
			t.Fatalf("unknown registry event %q", ev.Act)
		}
		// coverage label: how the request is signed / what kind of header it carries
		switch {
		case ev.Act == "UpdateClient":
			echo["tag"] = "header_" + ev.Header
		case ev.Signer == "gov":
			echo["tag"] = "authority"
		case ev.As == "self":
			echo["tag"] = "own_address_as_authority"
		default:
			echo["tag"] = "forged_authority"
		}
		var res *abci.ExecTxResult
		if ev.Signer == "gov" {
			info["via"] = "msgserver"
			res = r.direct(msg)
		} else {
			res = r.baseapp(ev.Signer, msg)
		}
		emit(echo, res)
	}
}
