"""Family "proofs": C08 - state-proof verification is sound and complete for the tm, bsc and eth light clients.

Pipeline (same stages as vlib/tracefam.py, with an exhaustive generator and a chunked trace check):
  1. design check   TLC, exhaustive: the sanity theorems T_* of spec/ProofsMC.tla hold on every point of the product
                    client configuration x store history x query x proof descriptor (one state per point).
  2. generation     TLC, exhaustive (NextBeh): every behaviour (= one configuration + all queries of one kind at one
                    height with their proof descriptors) is printed once by the invariant PrintBehaviour.
                    quick    Modes = {"diag"}: proofs generated for the queried key at the queried height, every
                             alteration, ALL client configurations and store histories; plus a seeded sample of
                             behaviours of the full product (tlc -simulate, NextSim).
                    thorough Modes = {"full"}: the full product.
  3. execution      harness/proofs.go realises every case on the real Verify* functions (sharded).
  4. trace check    TLC, spec/TraceProofs.tla: recorded outcome vs Proofs!Verify, both directions -> bad (C08);
                    anomalies -> div.  The trace is cut at behaviour boundaries and checked by parallel TLC runs.
"""
import collections
import concurrent.futures
import json
import os
import re
import shutil
import time

from . import common as C
from . import tracefam as T

FAM = dict(
    name="proofs",
    design=[
        dict(role="intended", module="MCProofs.tla", cfg_quick="proofs_design_quick.cfg", cfg_thorough="proofs_design.cfg",
             timeout_quick=600, timeout_thorough=2400),
    ],
    gen=dict(module="MCProofs.tla", exhaustive_cfg="gen_proofs.cfg", sample_cfg="gen_proofs_sim.cfg",
             modes=dict(quick='{"diag"}', thorough='{"full"}'),
             sample=dict(quick=12, thorough=0)),
    trace=dict(module="TraceProofs.tla", cfg="trace_proofs.cfg"),
    harness=dict(family="proofs", chains=0, links=[]),
    assumptions=[
        "C08 is a pure decision procedure: the TLA+ specification contributes the decision (Proofs!Verify, the oracle) and the "
        "exhaustive case table, not an exploration of interleavings",
        "the product is finite by construction: 3 heights, 2 store histories, 6 keys, 3 values, 8 proof alterations, "
        "latest in {2,3}, recorded roots {1,2,3} / {1,3}, delays 0..2 - the real code is exercised on these points only",
        "tm: real simapp chains, committed IAVL stores, real MsgUpdateClient, real ABCI proofs; the client state value handed to "
        "Verify* carries the configuration's latest height and TimeDelay (the keeper always passes the stored client state)",
        "bsc / eth: counterparty state = go-ethereum v1.10.17 tries built by the harness with eth_getProof semantics (storage trie "
        "keyed by keccak(slot), account trie by keccak(address), storageProof.key = slot), confirmed by the recorded main-net "
        "proof in 09-eth/types/client_state_test.go; consensus states written directly into a real client store (no header "
        "verification - that is C17/C18); ETH TimeDelay kept 0 (the client never reads it)",
        "Merkle-Patricia proofs are node sets: a re-ordered node list is the same proof (model: Intact), an ICS-23 chained proof "
        "is positional",
        "cosmos-sdk store / IAVL / ICS-23, go-ethereum trie + rlp, TLC and the harness concretisation are trusted",
    ],
)
PROPS = ["C08"]

LEVEL_NOTE = ("C08 is a pure decision procedure: TLC checks sanity theorems of the decision on every point of the finite case table "
              "and enumerates that table; every point is executed on the real Verify* functions and compared with the TLA+ decision "
              "by TLC (both directions). No interleavings are explored - there are none.")


def _override(workdir, cfg, ov, prefix):
    txt = open(os.path.join(workdir, cfg)).read()
    for k, v in ov.items():
        txt, n = re.subn(r"(?m)^(\s*%s\s*=\s*).*$" % re.escape(k), lambda m: m.group(1) + v, txt)
        if n == 0:
            raise C.Inconclusive("override of %s not found in %s" % (k, cfg))
    out = prefix + cfg
    open(os.path.join(workdir, out), "w").write(txt)
    return out


def _parse_behs(out):
    behs = []
    for line in out.splitlines():
        if line.startswith('<<"BEH", "'):
            behs.append(json.loads(json.loads(line[len('<<"BEH", '):-2])))
    return behs


def generate_exhaustive(workdir, fam, tier):
    g = fam["gen"]
    cfg = _override(workdir, g["exhaustive_cfg"], {"Modes": g["modes"][tier]}, "gen_%s_" % tier)
    t0 = time.time()
    rc, out = C.tlc(workdir, g["module"], cfg, workers=1, timeout=3000)
    behs = _parse_behs(out)
    m = C.TLC_STATS.findall(out)
    sizes = re.findall(r'<<"SIZES", (\d+), (\d+), (\d+), (\d+), (\d+)>>', out)
    if not behs or "Model checking completed" not in out or not m:
        raise C.Inconclusive("exhaustive generation failed (rc=%s):\n%s" % (rc, out[-3000:].replace("\\\"", '"')[-3000:]))
    info = dict(cfg=cfg, behaviours=len(behs), cases=sum(len(b) - 1 for b in behs), states=int(m[-1][1]), wall_s=round(time.time() - t0, 1))
    if sizes:
        s = [int(x) for x in sizes[-1]]
        info["sizes"] = dict(clients=s[0], histories=s[1], queries=s[2], proof_descriptors=s[3], behaviour_ids=s[4])
        if len(behs) != s[4]:
            raise C.Inconclusive("generator printed %d behaviours, the product has %d" % (len(behs), s[4]))
    return behs, info


def _cfg_key(b):
    c = b[0]["cfg"]
    return (c["type"] != "tm", c["type"], c["hist"], str(sorted(c["roots"])))


def _split_trace(trace, workdir, k):
    """Cuts the NDJSON trace into <= k files at behaviour boundaries; returns [(dir, lines)]."""
    lines = open(trace).readlines()
    starts = [i for i, l in enumerate(lines) if '"i":0,' in l[:40]]
    if not starts or starts[0] != 0:
        raise C.Inconclusive("trace does not start with a Reset record")
    per = max(1, (len(lines) + k - 1) // k)
    cuts, nxt = [0], per
    for s in starts[1:]:
        if s >= nxt:
            cuts.append(s)
            nxt = s + per
    cuts.append(len(lines))
    out = []
    for ci in range(len(cuts) - 1):
        d = os.path.join(workdir, "tc-%d" % ci)
        os.makedirs(d)
        C.copy_specs(d)
        with open(os.path.join(d, "trace.ndjson"), "w") as fh:
            fh.writelines(lines[cuts[ci]:cuts[ci + 1]])
        out.append((d, cuts[ci + 1] - cuts[ci]))
    return out


def _run(fam, tier, seed, binp, work):
    C.copy_specs(work)
    pool = concurrent.futures.ThreadPoolExecutor(max_workers=4)
    # 1. design check (in the background: it does not depend on the real code)
    d = fam["design"][0]
    ddir = os.path.join(work, "design")
    os.makedirs(ddir)
    C.copy_specs(ddir)
    fdesign = pool.submit(C.design_check, ddir, d["module"], d["cfg_" + tier], None, d["timeout_" + tier])
    # 2. generation
    g = fam["gen"]
    fsample = None
    if g["sample"][tier]:
        sdir = os.path.join(work, "sample")
        os.makedirs(sdir)
        C.copy_specs(sdir)
        fsample = pool.submit(C.simulate, sdir, g["module"], g["sample_cfg"], g["sample"][tier], 1, seed * 7919 + 11, None, 900)
    ex, geninfo = generate_exhaustive(work, fam, tier)
    ex.sort(key=_cfg_key)
    behs = [dict(name="%s#%d" % (geninfo["cfg"], i), events=b) for i, b in enumerate(ex)]
    if fsample:
        sim = fsample.result()
        sim.sort(key=_cfg_key)
        behs += [dict(name="%s/seed%d#%d" % (g["sample_cfg"], seed, i), events=b) for i, b in enumerate(sim)]
        geninfo["sampled_behaviours"] = len(sim)
        geninfo["sampled_cases"] = sum(len(b) - 1 for b in sim)
    json.dump(behs, open(os.path.join(work, "behaviours.json"), "w"))
    # 3. execute on the real code
    h = fam["harness"]
    t0 = time.time()
    trace = C.run_harness(binp, work, h["family"], h["chains"], h["links"], [b["events"] for b in behs], timeout=3000)
    harness_s = round(time.time() - t0, 1)
    # 4. TLC trace check, in parallel over pieces of the trace
    t0 = time.time()
    nlines = sum(1 for _ in open(trace))
    pieces = _split_trace(trace, work, max(1, min(12, C.NCPU - 2, nlines // 20000 + 1)))
    t = fam["trace"]
    # several JVMs side by side: keep each one's collector and heap modest
    saved = os.environ.get("JAVA_TOOL_OPTIONS")
    if len(pieces) > 1:
        os.environ["JAVA_TOOL_OPTIONS"] = ((saved + " ") if saved else "") + "-XX:ParallelGCThreads=2 -Xmx6g"
    try:
        with concurrent.futures.ThreadPoolExecutor(max_workers=len(pieces)) as tp:
            results = list(tp.map(lambda p: C.trace_check(p[0], t["module"], t["cfg"], os.path.join(p[0], "trace.ndjson"), 2400), pieces))
    finally:
        if saved is None:
            os.environ.pop("JAVA_TOOL_OPTIONS", None)
        else:
            os.environ["JAVA_TOOL_OPTIONS"] = saved
    res = dict(n=sum(r["n"] for r in results), steps=sum(r["steps"] for r in results),
               bad=[b for r in results for b in r["bad"]], div=[b for r in results for b in r["div"]])
    res["bad"].sort(key=lambda b: (b["tr"], b["i"]))
    res["div"].sort(key=lambda b: (b["tr"], b["i"]))
    trace_s = round(time.time() - t0, 1)
    for p, _ in pieces:
        shutil.rmtree(p, ignore_errors=True)
    design = fdesign.result()
    design["role"] = d["role"]
    design["overrides"] = {}
    if design["violated"]:
        raise C.Inconclusive("the specification violates its own sanity theorems %s - the specification is wrong" % design["violated"])
    if not design["complete"]:
        raise C.Inconclusive("design check did not complete: %s" % design)
    pool.shutdown()
    # 5. statistics from the recorded trace
    acts = collections.Counter()
    stats = collections.Counter()
    distinct = set()
    samples = {}
    want = {(x["tr"], x["i"]) for x in res["bad"] + res["div"]}
    ctx = {}
    cfgj, typ = "", ""
    for line in open(trace):
        rec = json.loads(line)
        ev = rec["ev"]
        if ev["act"] == "Reset":
            continue
        if ev["act"] == "Config":
            cfgj, typ = json.dumps({k: v for k, v in ev["cfg"].items() if k != "mode"}, sort_keys=True), ev["cfg"]["type"]
            stats["configs"] += 1
            continue
        okk = {0: "ok", 1: "rej"}.get(rec["code"], "code%d" % rec["code"])
        if (rec["tr"], rec["i"]) in want:
            ctx["%d/%d" % (rec["tr"], rec["i"])] = dict(cfg=json.loads(cfgj), ev=ev, code=rec["code"], log=rec.get("log", "")[:300], info=rec.get("info"))
        acts["Verify:%s:%s:%s:%s" % (typ, ev["q"]["kind"], ev["pf"]["variant"], okk)] += 1
        stats["steps"] += 1
        stats[okk] += 1
        stats["calls_" + typ] += 1
        stats["%s_%s_%s" % (okk, typ, ev["q"]["kind"])] += 1
        distinct.add(C.sha(cfgj, json.dumps(ev, sort_keys=True)))
        k = "%s:%s:%s" % (typ, ev["q"]["kind"], okk)
        if k not in samples:
            samples[k] = dict(client=typ, ev=ev, code=rec["code"], log=rec.get("log", "")[:160], info=rec.get("info"))
    for x in res["bad"] + res["div"]:
        x["ctx"] = ctx.get("%d/%d" % (x["tr"], x["i"]))
    # vacuity guard: every client type and kind was exercised, and something was accepted
    for ty in ("tm", "bsc", "eth"):
        for kd in ("commit", "ack", "clean"):
            if not (stats["ok_%s_%s" % (ty, kd)] + stats["rej_%s_%s" % (ty, kd)]):
                raise C.Inconclusive("vacuous run: no verification call recorded for %s/%s" % (ty, kd))
    if not stats["ok"] or not stats["rej"]:
        raise C.Inconclusive("vacuous run: accepted=%d rejected=%d" % (stats["ok"], stats["rej"]))
    return dict(family=fam["name"], tier=tier, seed=seed, designs=[design], n_behaviours=len(behs),
                behaviour_names=[b["name"] for b in behs][:50], bad=res["bad"], div=res["div"], lines=res["n"], steps=res["steps"],
                acts=dict(acts), stats=dict(stats), distinct=len(distinct), samples=list(samples.values())[:12],
                generation=geninfo, harness_s=harness_s, trace_check_s=trace_s, trace_pieces=len(pieces))


def run_family(fam, tier, seed):
    """Same caching / locking discipline as tracefam.run_family, with this family's pipeline."""
    binp, hkey = C.ensure_harness()
    key = T._fam_key(fam, tier, seed, hkey)
    cdir = os.path.join(C.WORK, "cache", key)
    with C.Lock("fam-" + fam["name"]):
        resf = os.path.join(cdir, "famrun.json")
        if os.path.exists(resf):
            r = json.load(open(resf))
            r["cached"] = True
            return r
        t0 = time.time()
        work = C.new_workdir(fam["name"])
        try:
            r = _run(fam, tier, seed, binp, work)
            r["wall_s"] = round(time.time() - t0, 1)
            r["harness_key"] = hkey
            os.makedirs(cdir, exist_ok=True)
            shutil.copy(os.path.join(work, "behaviours.json"), cdir)
            json.dump(r, open(resf, "w"))
            T._prune_cache()
            r["cached"] = False
            return r
        finally:
            shutil.rmtree(work, ignore_errors=True)


def check(prop, tier, seed, replay):
    if replay:
        return T.replay(prop, FAM, replay)
    r = run_family(FAM, tier, seed)
    st = r["stats"]
    extra = dict(
        exhaustive=(tier == "thorough"),
        explanation=LEVEL_NOTE,
        real_verification_calls=dict(total=st.get("steps", 0), tm=st.get("calls_tm", 0), bsc=st.get("calls_bsc", 0), eth=st.get("calls_eth", 0),
                                     accepted=st.get("ok", 0), refused=st.get("rej", 0)),
        generation=r.get("generation"), harness_s=r.get("harness_s"), trace_check_s=r.get("trace_check_s"),
        rule="one evaluation = one call of a real ClientState.Verify* function on a case enumerated by TLC from spec/ProofsMC.tla, "
             "its outcome compared by TLC with Proofs!Verify (both directions); distinct = distinct (configuration, query, proof "
             "descriptor) triples. quick: every configuration x query with the proof for the queried key and height under every "
             "alteration, plus a seeded sample of the full product; thorough: the full product",
        checker_cmd="tlc (exhaustive: theorems on the case table, NextBeh generation; TraceSpec over the recorded calls) + "
                    "go test -tags verif harness (family proofs)",
    )
    print("C08: %d real verification calls (tm %d, bsc %d, eth %d; %d accepted, %d refused), %d behaviours, %d distinct cases; "
          "case table %s states checked; family wall %ss%s" % (
              st.get("steps", 0), st.get("calls_tm", 0), st.get("calls_bsc", 0), st.get("calls_eth", 0), st.get("ok", 0), st.get("rej", 0),
              r["n_behaviours"], r["distinct"], r["designs"][0]["states"], r.get("wall_s"), " (cached)" if r.get("cached") else ""))
    # tracefam.verdict fetches the behaviour of every distinct finding; load the (large) behaviour file once
    cache = {}

    def behaviour_of(fam, tier_, seed_, tr, cdir=None):
        if "b" not in cache:
            if cdir is None:
                _, hkey = C.ensure_harness()
                cdir = os.path.join(C.WORK, "cache", T._fam_key(fam, tier_, seed_, hkey))
            cache["b"] = json.load(open(os.path.join(cdir, "behaviours.json")))
        return cache["b"][tr - 1]

    orig = T.behaviour_of
    T.behaviour_of = behaviour_of
    try:
        return T.verdict(prop, FAM, tier, seed, r, extra_cov=extra)
    finally:
        T.behaviour_of = orig
