"""Shared machinery of the /verif/check driver: scratch dirs, harness build, TLC calls, verdicts, evidence."""
import hashlib
import json
import os
import re
import shutil
import subprocess
import sys
import tempfile
import time
import fcntl

VERIF = os.path.dirname(os.path.dirname(os.path.abspath(__file__)))
REPO = os.environ.get("VERIF_REPO", "/repo")
WORK = os.path.join(VERIF, ".work")
# coverage mode (tools/coverage.sh): the harness is built with -cover over the repository's packages and every shard
# writes a profile into this directory; says which code of /repo the replayed behaviours reach
COVER_DIR = os.environ.get("VERIF_COVER_DIR", "")
SPEC = os.path.join(VERIF, "spec")
HARNESS = os.path.join(VERIF, "harness")
GOENV = dict(os.environ, GOFLAGS="-mod=mod", GOPROXY="off", GOSUMDB="off", GOTOOLCHAIN="local")
NCPU = os.cpu_count() or 4


class Inconclusive(Exception):
    pass


def sh(cmd, cwd=None, env=None, timeout=None, check=False):
    p = subprocess.run(cmd, cwd=cwd, env=env, timeout=timeout, stdout=subprocess.PIPE, stderr=subprocess.STDOUT,
                       shell=isinstance(cmd, str), text=True, errors="replace")
    if check and p.returncode != 0:
        raise Inconclusive("command failed (%s): %s\n%s" % (p.returncode, cmd, p.stdout[-4000:]))
    return p.returncode, p.stdout


def sha(*parts):
    h = hashlib.sha256()
    for p in parts:
        h.update(p if isinstance(p, bytes) else str(p).encode())
        h.update(b"\0")
    return h.hexdigest()


def dir_hash(path, exts):
    h = hashlib.sha256()
    for root, dirs, files in os.walk(path):
        dirs.sort()
        for f in sorted(files):
            if f.endswith(exts):
                fp = os.path.join(root, f)
                h.update(fp.encode())
                with open(fp, "rb") as fh:
                    h.update(fh.read())
    return h.hexdigest()


def repo_tree_hash():
    """Hash of /repo's working tree as far as Go builds are concerned (HEAD + diff + untracked go files)."""
    _, head = sh(["git", "-C", REPO, "rev-parse", "HEAD"])
    _, diff = sh(["git", "-C", REPO, "diff", "HEAD"])
    _, untracked = sh(["git", "-C", REPO, "ls-files", "--others", "--exclude-standard"])
    h = hashlib.sha256((head + diff).encode())
    for f in sorted(untracked.split()):
        fp = os.path.join(REPO, f)
        if os.path.isfile(fp):
            h.update(f.encode())
            with open(fp, "rb") as fh:
                h.update(fh.read())
    return h.hexdigest()[:20]


class Lock:
    def __init__(self, name):
        os.makedirs(WORK, exist_ok=True)
        self.path = os.path.join(WORK, name + ".lock")

    def __enter__(self):
        self.f = open(self.path, "w")
        fcntl.flock(self.f, fcntl.LOCK_EX)
        return self

    def __exit__(self, *a):
        fcntl.flock(self.f, fcntl.LOCK_UN)
        self.f.close()


_HARNESS = []


def ensure_harness():
    """Memoised per process: the tree is hashed once, at the first call."""
    if not _HARNESS:
        _HARNESS.append(_ensure_harness())
    return _HARNESS[0]


def _ensure_harness():
    """Builds the conformance harness from /repo's current working tree with the verif hooks on.
    Returns (binary path, key). The binary is cached under a key derived from the tree contents."""
    key = sha(repo_tree_hash(), dir_hash(HARNESS, (".go", ".mod")), "cover" if COVER_DIR else "")[:20]
    bindir = os.path.join(WORK, "bin")
    os.makedirs(bindir, exist_ok=True)
    binp = os.path.join(bindir, "harness-%s.test" % key)
    with Lock("build"):
        if os.path.exists(binp):
            return binp, key
        shutil.copy(os.path.join(REPO, "go.sum"), os.path.join(HARNESS, "go.sum"))
        t0 = time.time()
        cover = ["-cover", "-coverpkg=github.com/bianjieai/tibc-go/modules/..."] if COVER_DIR else []
        rc, out = sh(["go", "test", "-tags", "verif"] + cover + ["-c", "-o", binp + ".tmp", "."], cwd=HARNESS, env=GOENV, timeout=3000)
        if rc != 0:
            raise Inconclusive("harness build failed:\n" + out[-6000:])
        os.rename(binp + ".tmp", binp)
        # keep only the three newest binaries
        bins = sorted((os.path.join(bindir, f) for f in os.listdir(bindir) if f.endswith(".test")), key=os.path.getmtime)
        for old in bins[:-3]:
            os.remove(old)
        sys.stderr.write("[build] harness built in %.0fs\n" % (time.time() - t0))
    return binp, key


def new_workdir(tag):
    os.makedirs(WORK, exist_ok=True)
    return tempfile.mkdtemp(prefix="run-%s-" % tag, dir=WORK)


TLC_STATS = re.compile(r"(\d+) states generated, (\d+) distinct states found")


def tlc(workdir, module, cfg, extra=(), workers=None, timeout=900, heap=None):
    """Runs TLC in workdir (spec files must already be there). Returns (rc, stdout)."""
    meta = tempfile.mkdtemp(prefix="meta-", dir=workdir)
    cmd = ["timeout", str(timeout), "tlc", "-workers", str(workers or min(NCPU, 12)), "-metadir", meta,
           "-config", cfg] + list(extra) + [module]
    env = dict(os.environ)
    rc, out = sh(cmd, cwd=workdir, env=env, timeout=timeout + 60)
    shutil.rmtree(meta, ignore_errors=True)
    shutil.rmtree(os.path.join(workdir, "states"), ignore_errors=True)
    return rc, out


def copy_specs(workdir, names=None):
    for f in os.listdir(SPEC):
        if f.endswith((".tla", ".cfg")) and (names is None or f in names):
            shutil.copy(os.path.join(SPEC, f), workdir)


def design_check(workdir, module, cfg, overrides=None, timeout=900, extra=()):
    """Exhaustive TLC run. Returns dict(states, transitions, depth, violated=[...], ok)."""
    cfgp = os.path.join(workdir, cfg)
    if overrides:
        txt = open(cfgp).read()
        for k, v in overrides.items():
            txt, n = re.subn(r"(?m)^(\s*%s\s*=\s*).*$" % re.escape(k), lambda m: m.group(1) + v, txt)
            if n == 0:
                raise Inconclusive("override of %s not found in %s" % (k, cfg))
        cfgp = os.path.join(workdir, "ovr_" + cfg)
        open(cfgp, "w").write(txt)
        cfg = "ovr_" + cfg
    t0 = time.time()
    rc, out = tlc(workdir, module, cfg, extra=extra, timeout=timeout)
    m = TLC_STATS.findall(out)
    violated = sorted(set(re.findall(r"Invariant (\w+) is violated", out)) |
                      set(re.findall(r"Action property (\w+) is violated", out)) |
                      set(re.findall(r"Temporal properties were violated", out)))
    depth = re.findall(r"depth of the complete state graph search is (\d+)", out)
    if not m or (rc not in (0, 12, 13) and not violated):
        raise Inconclusive("TLC design check failed (rc=%s):\n%s" % (rc, out[-3000:]))
    gen, dist = m[-1]
    return dict(transitions=int(gen), states=int(dist), depth=int(depth[-1]) if depth else 0, violated=violated,
                complete="Model checking completed" in out, wall_s=round(time.time() - t0, 1), cfg=cfg, module=module)


def simulate(workdir, module, cfg, num, depth, seed, overrides=None, timeout=600):
    """TLC -simulate; returns the list of behaviours printed by the PrintBehaviour invariant."""
    cfgp = os.path.join(workdir, cfg)
    txt = open(cfgp).read()
    ov = dict(overrides or {})
    ov["SimDepth"] = str(depth)
    for k, v in ov.items():
        txt, n = re.subn(r"(?m)^(\s*%s\s*=\s*).*$" % re.escape(k), lambda m: m.group(1) + v, txt)
        if n == 0:
            raise Inconclusive("override of %s not found in %s" % (k, cfg))
    cfg2 = "sim_" + cfg
    open(os.path.join(workdir, cfg2), "w").write(txt)
    rc, out = tlc(workdir, module, cfg2, extra=["-simulate", "num=%d" % num, "-depth", str(depth + 1), "-seed", str(seed)],
                  workers=1, timeout=timeout)
    behs = []
    for line in out.splitlines():
        if line.startswith('<<"BEH", "'):
            js = line[len('<<"BEH", '):-2]
            behs.append(json.loads(json.loads(js)))
    if not behs:
        raise Inconclusive("TLC generated no behaviour (rc=%s):\n%s" % (rc, out[-3000:]))
    return behs


def run_harness(binp, workdir, family, chains, links, behaviours, shards=None, extra_env=None, timeout=1500, params=None):
    """Executes behaviours on the real code, sharded over processes. Returns path of the concatenated trace."""
    shards = shards or min(NCPU, max(1, len(behaviours) // 2))
    procs = []
    per = (len(behaviours) + shards - 1) // shards
    first = 1
    for s in range(shards):
        chunk = behaviours[s * per:(s + 1) * per]
        if not chunk:
            continue
        inp = os.path.join(workdir, "in-%d.json" % s)
        outp = os.path.join(workdir, "trace-%d.ndjson" % s)
        json.dump(dict(family=family, chains=chains, links=links, behaviours=chunk, first=first, params=params or {}), open(inp, "w"))
        first += len(chunk)
        env = dict(os.environ, VERIF_IN=inp, VERIF_OUT=outp)
        env.update(extra_env or {})
        logp = os.path.join(workdir, "harness-%d.log" % s)
        cov = ["-test.coverprofile", os.path.join(COVER_DIR, "%s-%d-%d-%d.out" % (family, os.getpid(), int(time.time() * 1000) % 10**9, s))] if COVER_DIR else []
        p = subprocess.Popen([binp, "-test.run", "^TestRun$", "-test.timeout", "%ds" % timeout] + cov, cwd=workdir, env=env,
                             stdout=open(logp, "w"), stderr=subprocess.STDOUT)
        procs.append((p, outp, logp))
    trace = os.path.join(workdir, "trace.ndjson")
    with open(trace, "w") as out:
        for p, outp, logp in procs:
            rc = p.wait()
            if rc != 0:
                raise Inconclusive("harness shard failed (rc=%s):\n%s" % (rc, open(logp).read()[-4000:]))
            with open(outp) as fh:
                shutil.copyfileobj(fh, out)
    return trace


def trace_check(workdir, module, cfg, trace, timeout=900):
    """Runs the trace specification over trace (copied to trace.ndjson in workdir). Returns result dict."""
    dst = os.path.join(workdir, "trace.ndjson")
    if os.path.abspath(trace) != os.path.abspath(dst):
        shutil.copy(trace, dst)
    res = os.path.join(workdir, "result.json")
    if os.path.exists(res):
        os.remove(res)
    nlines = sum(1 for _ in open(dst))
    rc, out = tlc(workdir, module, cfg, workers=1, timeout=timeout)
    if not os.path.exists(res):
        raise Inconclusive("trace check produced no result (rc=%s):\n%s" % (rc, out[-4000:]))
    r = json.load(open(res))
    if r.get("n") != nlines:
        raise Inconclusive("trace check consumed %s of %s lines:\n%s" % (r.get("n"), nlines, out[-3000:]))
    return r


def load_known():
    p = os.path.join(VERIF, "known_findings.json")
    if not os.path.exists(p):
        return {"open": [], "fixed": []}
    return json.load(open(p))


def match_known(prop, label, known):
    """label: dict with f (formula) and d (detail). A known finding matches on property, formula and a detail regexp."""
    for k in known.get("open", []):
        if k["property"] == prop and k["formula"] == label["f"] and re.fullmatch(k.get("detail", ".*"), label.get("d", "")):
            return k
    return None


def write_evidence(prop, tier, seed, level, coverage, wall_s, violations, assumptions):
    os.makedirs(os.path.join(VERIF, "evidence"), exist_ok=True)
    ev = dict(property_id=prop, tier=tier, seed=int(seed), level=level, coverage=coverage, wall_s=round(wall_s, 1),
              violations=int(violations), assumptions=assumptions)
    tmp = os.path.join(VERIF, "evidence", "%s.json.tmp" % prop)
    json.dump(ev, open(tmp, "w"), indent=1, sort_keys=True)
    os.replace(tmp, os.path.join(VERIF, "evidence", "%s.json" % prop))


def save_replay(prop, payload):
    os.makedirs(os.path.join(VERIF, "replays"), exist_ok=True)
    fp = sha(json.dumps(payload, sort_keys=True))[:12]
    path = os.path.join(VERIF, "replays", "%s-%s.json" % (prop, fp))
    json.dump(payload, open(path, "w"), indent=1)
    return path
