#!/usr/bin/env python3
"""Prepare a scratch worktree and the task text for an independent sub-agent that seeds a property-breaking change.
usage: tools/seed_prompt.py <round-suffix> <ID>...      e.g. tools/seed_prompt.py b C01 C02
The agent is given ONLY the property text and its own worktree under /tmp/seed-<ID><suffix>/ (nothing from /verif).
For rounds after the first the one-sentence summary of the earlier seeded changes is passed as 'already explored'."""
import json, os, subprocess, sys, glob
V = os.path.dirname(os.path.dirname(os.path.abspath(__file__)))
props = {json.loads(l)['id']: json.loads(l) for l in open(V + '/properties.jsonl')}
TMPL = '''You are a software engineer helping to evaluate a verification tool for the Go repository bianjieai/tibc-go (Cosmos SDK modules implementing "Terse IBC": cross-chain packet send/receive/ack, client registry, Tendermint/BSC/Ethereum light clients, NFT and multi-token transfer apps). You have your own scratch git worktree of the repository at /tmp/seed-{tag}/wt (work ONLY there and in /tmp/seed-{tag}/out; do not read or write /verif, /repo or any other /tmp/seed-* or /tmp/build-* directory). No network. Go environment for every shell call: `export GOFLAGS=-mod=mod GOPROXY=off GOSUMDB=off GOTOOLCHAIN=local`.

Here is a semantic property the repository is supposed to satisfy:

  {id} - {title}
  {statement}
  (It must hold {q}.)

YOUR TASK: produce ONE realistic change (a "seeded defect") to the non-test Go source of the worktree that BREAKS this property, such that
  1. the repository still compiles (`go build ./... && go test -count=1 -run '^$' ./...` must succeed),
  2. the repository's existing test suite still passes exactly as before: `cd /tmp/seed-{tag}/wt && go test -mod=mod -vet=off -count=1 -timeout 25m ./... 2>&1 | tail -40` (first run it on the unmodified worktree and note which packages/tests fail already - a handful fail at baseline; your change must not add failures),
  3. the defect needs something SPECIFIC to manifest - a particular interleaving or order of relayed messages, a multi-step history (e.g. only after a cleanup, only for the second packet on a channel, only on a relay chain, only with an error acknowledgement), an unusual input (boundary value, particular field combination), or two cooperating code sites that each look fine alone. Do NOT make a change that ordinary use (the simplest send/receive/ack round trip) would expose at once, and do not make the code panic or change error texts only. It should look like a plausible mistake or an "optimisation"/refactoring a maintainer could have merged, not sabotage: small (typically 1-15 lines), no dead giveaway comments.
  4. you provide a DEMONSTRATION: a new Go test file (put it in the appropriate package directory of the worktree, name it zz_seed_demo_test.go, using the repository's own test helpers in modules/tibc/testing - multi-chain coordinator, real proofs - where useful) or a small program, which PASSES on the unmodified worktree and FAILS with your change, and whose failure shows the property being violated at the level of observable behaviour (state, callbacks, tokens, accepted/rejected messages), not by inspecting the changed line.
{avoid}
Read the relevant code first (start from the README / docs and: {files}). Think about which guard, comparison, key, ordering or bookkeeping step the property depends on, and weaken exactly one such thing in a way the existing tests do not notice.

WHEN DONE, write into /tmp/seed-{tag}/out/:
  - patch.diff : `git -C /tmp/seed-{tag}/wt diff` of the source change ONLY (without the demo test file),
  - the demonstration file(s) (copy of zz_seed_demo_test.go, plus a one-line RUN file saying in which package dir to put it and the exact `go test -run ...` command),
  - meta.json : {{"property": "{id}", "summary": "<one sentence: what was changed>", "needs_to_manifest": "<what specific history / input / interleaving is required>", "why_tests_miss_it": "<...>", "verified": {{"builds": true/false, "suite_unchanged": true/false, "demo_passes_without": true/false, "demo_fails_with": true/false}}, "commands": ["<what you ran>"]}}.
Then leave the worktree with your change applied and the demo test present. Your final message: a short summary plus the contents of meta.json. If after a serious attempt you cannot find such a change, say so and explain what you tried.'''
suffix = sys.argv[1]
for i in sys.argv[2:]:
    p = props[i]; tag = i + suffix
    d = '/tmp/seed-' + tag
    os.makedirs(d + '/out', exist_ok=True)
    if not os.path.isdir(d + '/wt'):
        subprocess.check_call(['git', '-C', '/repo', 'worktree', 'add', '--detach', d + '/wt', 'HEAD'], stdout=subprocess.DEVNULL)
    earlier = []
    for m in sorted(glob.glob(V + '/seeded/%s-*/meta.json' % i)):
        earlier.append(json.load(open(m)).get('summary', ''))
    avoid = ''
    if earlier:
        avoid = '\nALREADY EXPLORED by other engineers - produce something DIFFERENT (another code site and another mechanism):\n' + ''.join('  - %s\n' % s for s in earlier)
    open(d + '/prompt.txt', 'w').write(TMPL.format(tag=tag, id=i, title=p['title'], statement=p['statement'], q=p['quantifier']['text'],
                                                  files=', '.join(p['anchors']['files']), avoid=avoid))
    print(d + '/prompt.txt')
