package harness

import (
	"bytes"
	"crypto/sha256"
	"encoding/hex"
	"encoding/json"
	"fmt"
	"sort"
	"strings"
	"time"

	"cosmossdk.io/log"
	abci "github.com/cometbft/cometbft/abci/types"
	dbm "github.com/cosmos/cosmos-db"
	"github.com/cosmos/cosmos-sdk/baseapp"

	host "github.com/bianjieai/tibc-go/modules/tibc/core/24-host"
	"github.com/bianjieai/tibc-go/simapp"
)

// stores compared between a chain and its re-imported twin
// (the irismod nft / mt module stores are third-party state and are not compared)
var twinStores = []string{host.StoreKey, "NFT", "MT"}

// exportModules is the explicit module list for the genesis export (simapp's default list fails, see S19).
var exportModules = []string{"auth", "bank", "distribution", "staking", "slashing", "gov", "mint", "crisis", "genutil", "params", "upgrade",
	"tibc", "nft", "NFT", "MT", "mt"}

// keyClass abstracts a store key into the class of state it belongs to (stable across runs).
func keyClass(store string, key []byte) string {
	k := string(key)
	if store == host.StoreKey {
		if strings.HasPrefix(k, "clients/") {
			parts := strings.SplitN(k, "/", 4)
			rest := ""
			if len(parts) >= 3 {
				rest = parts[2]
			}
			switch {
			case strings.HasSuffix(k, "/processedTime"):
				return "tibc:client/processedTime"
			case strings.HasPrefix(rest, "consensusStates"):
				return "tibc:client/consensusState"
			case strings.HasPrefix(rest, "clientState"):
				return "tibc:client/clientState"
			case strings.HasPrefix(rest, "iterateConsensusStates"):
				return "tibc:client/iterationKey"
			case strings.HasPrefix(rest, "processedTime"), strings.Contains(k, "processedTime"):
				return "tibc:client/processedTime"
			}
			return "tibc:client/other:" + printable(rest, 24)
		}
		i := strings.IndexAny(k, "/")
		if i < 0 {
			return "tibc:" + printable(k, 24)
		}
		return "tibc:" + printable(k[:i], 24)
	}
	if store == "NFT" || store == "MT" {
		if len(key) > 0 && key[0] == 0x01 {
			return store + ":classTrace"
		}
		return store + ":other"
	}
	if len(key) > 0 {
		return fmt.Sprintf("%s:prefix%02x", store, key[0])
	}
	return store + ":empty"
}

func printable(s string, n int) string {
	out := []rune{}
	for _, r := range s {
		if r < 32 || r > 126 {
			r = '?'
		}
		out = append(out, r)
		if len(out) >= n {
			break
		}
	}
	return string(out)
}

func dumpStore(app *simapp.SimApp, store string) map[string][]byte {
	out := map[string][]byte{}
	key := app.GetKey(store)
	if key == nil {
		return out
	}
	it := app.CommitMultiStore().GetKVStore(key).Iterator(nil, nil)
	for ; it.Valid(); it.Next() {
		out[string(it.Key())] = append([]byte{}, it.Value()...)
	}
	it.Close()
	return out
}

// ExportImport exports chain x with the app's own export function, starts a fresh app from the exported state and
// compares the raw contents of the TIBC and token stores. It returns the classes of keys that differ and notes.
func (n *Net) ExportImport(x string) ([]string, map[string]interface{}) {
	c := n.Chains[x]
	info := map[string]interface{}{}
	if _, err := c.App.ExportAppStateAndValidators(false, nil, nil); err != nil {
		info["default_export_error"] = printable(err.Error(), 160)
	}
	var exp struct {
		state  json.RawMessage
		height int64
	}
	func() {
		defer func() {
			if r := recover(); r != nil {
				info["export_panic"] = printable(fmt.Sprint(r), 160)
			}
		}()
		e, err := c.App.ExportAppStateAndValidators(false, nil, exportModules)
		if err != nil {
			info["export_error"] = printable(err.Error(), 160)
			return
		}
		exp.state, exp.height = e.AppState, e.Height
	}()
	if exp.state == nil {
		return []string{"export_failed"}, info
	}
	var exported map[string]json.RawMessage
	if err := json.Unmarshal(exp.state, &exported); err != nil {
		return []string{"export_unreadable"}, info
	}
	app2 := simapp.NewSimApp(log.NewNopLogger(), dbm.NewMemDB(), nil, true, simapp.EmptyAppOptions{}, baseapp.SetChainID(c.ChainID))
	gen := simapp.NewDefaultGenesisState(app2.AppCodec())
	for k, v := range exported {
		if len(v) > 0 && string(v) != "null" {
			gen[k] = v
		}
	}
	bz, _ := json.Marshal(gen)
	var diff []string
	func() {
		defer func() {
			if r := recover(); r != nil {
				info["import_panic"] = printable(fmt.Sprint(r), 200)
				diff = append(diff, "import_failed")
			}
		}()
		if _, err := app2.InitChain(&abci.RequestInitChain{ChainId: c.ChainID, InitialHeight: exp.height, Time: c.ProposedHeader.Time,
			Validators: []abci.ValidatorUpdate{}, ConsensusParams: simapp.DefaultConsensusParams, AppStateBytes: bz}); err != nil {
			info["import_error"] = printable(err.Error(), 200)
			diff = append(diff, "import_failed")
			return
		}
		if _, err := app2.FinalizeBlock(&abci.RequestFinalizeBlock{Height: exp.height, Time: c.ProposedHeader.Time, NextValidatorsHash: c.NextVals.Hash()}); err != nil {
			info["import_block_error"] = printable(err.Error(), 200)
			diff = append(diff, "import_failed")
			return
		}
		if _, err := app2.Commit(); err != nil {
			diff = append(diff, "import_failed")
			return
		}
		classes := map[string]bool{}
		examples := map[string]string{}
		for _, s := range twinStores {
			a, b := dumpStore(c.App, s), dumpStore(app2, s)
			for k, v := range a {
				if w, ok := b[k]; !ok || !bytes.Equal(v, w) {
					cl := keyClass(s, []byte(k))
					if !ok {
						cl += ":lost"
					} else {
						cl += ":changed"
					}
					classes[cl] = true
					examples[cl] = printable(k, 60)
				}
			}
			for k := range b {
				if _, ok := a[k]; !ok {
					cl := keyClass(s, []byte(k)) + ":added"
					classes[cl] = true
					examples[cl] = printable(k, 60)
				}
			}
		}
		for cl := range classes {
			diff = append(diff, cl)
		}
		info["examples"] = examples
		// "answers every TIBC query identically": the same query battery against both applications at the same block
		ctxa, ctxb := c.App.BaseApp.NewUncachedContext(false, c.ProposedHeader), app2.BaseApp.NewUncachedContext(false, c.ProposedHeader)
		cn := clientNames(n, c.App, ctxa)
		qa := queryDigests(n, c.App, ctxa, cn)
		qb := queryDigests(n, app2, ctxb, cn)
		diff = append(diff, queryDiff(qa, qb)...)
		info["queries"] = len(qa)
	}()
	if _, failed := info["default_export_error"]; failed {
		// the application's own export command (default module list) does not work at all
		diff = append(diff, "app:default_export:failed")
	}
	sort.Strings(diff)
	return diff, info
}

// ExpireClients moves the clock of every chain forward by d (clients with a shorter trusting period expire).
func (n *Net) ExpireClients(d time.Duration) {
	n.Coord.IncrementTimeBy(d)
	for _, x := range n.Names {
		n.Coord.CommitBlock(n.Chains[x])
	}
}

// AdvanceTo commits empty blocks on x until its next settled (provable) height is h.
func (n *Net) AdvanceTo(x string, h uint64) {
	c := n.Chains[x]
	for c.LastHeader.GetHeight().GetRevisionHeight()+1 < h {
		n.Coord.CommitBlock(c)
	}
	n.Settle(x)
}

// resultHash is the fingerprint of everything a transaction result exposes (code, data, log, gas, events).
func resultHash(res *abci.ExecTxResult) string {
	if res == nil {
		return ""
	}
	bz, err := res.Marshal()
	if err != nil {
		return "marshal-error"
	}
	h := sha256.Sum256(bz)
	return hex.EncodeToString(h[:])[:16]
}
