#!/bin/bash
# Runs the repository's own test suite with the verif guard OFF and compares with /root/.vp/BASELINE.json.
export GOFLAGS=-mod=mod GOPROXY=off GOSUMDB=off GOTOOLCHAIN=local
out=${1:-/tmp/baseline.gotest.json}
(cd /repo && go test -mod=mod -json -vet=off -count=1 -timeout 25m ./... > "$out" 2>/dev/null)
python3 - "$out" <<'PY'
import json,sys
base=json.load(open('/root/.vp/BASELINE.json'))['stable_pass']
passed=set()
for l in open(sys.argv[1]):
    try: r=json.loads(l)
    except Exception: continue
    if r.get('Action')=='pass' and r.get('Test'):
        passed.add(r['Package']+'::'+r['Test'])
missing=[t for t in base if t not in passed]
print('baseline tests:',len(base),'passed now:',len([t for t in base if t in passed]),'missing:',len(missing))
for t in missing[:20]: print('  MISSING',t)
sys.exit(1 if missing else 0)
PY
