#!/bin/bash
# Which code of /repo do the replayed behaviours reach?  Builds the harness with -cover over the repository's packages in a
# scratch copy of /verif (so that /verif's result cache stays valid), runs the given checks (default: one per family) in the
# quick tier and writes the merged profile and a report of the blocks never reached in the files the properties are anchored in.
# usage: tools/coverage.sh [outdir] [ID...]        (takes as long as a full quick run with cold caches)
out=${1:-/verif/.work/coverage}; shift
props=${@:-C03 C04 C16 C14 C12 C15 C08 C07 C17 C18 C20}
scratch=$(mktemp -d /tmp/vcov.XXXX)
rsync -a --exclude .work --exclude .git --exclude replays /verif/ $scratch/
mkdir -p $out/prof; rm -f $out/prof/*.out
cd $scratch
for p in $props; do
  VERIF_COVER_DIR=$out/prof ./check $p --tier quick --seed ${VERIF_SEED:-1} > $out/$p.log 2>&1; echo "$p rc=$?"
done
cd /verif; rm -rf $scratch
python3 tools/coverage.py $out/prof $out
