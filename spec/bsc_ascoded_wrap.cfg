\* design check, as-coded model (flags: tree_flags_bsc.json), client created at block 0: Inv_Decision is EXPECTED to fail -
\* while number < floor(N/2)+1 the recency rule is off (uint64 subtraction in verifySeal). The counterexample is the predicted finding.
CONSTANTS
  MaxV = 5
  F_NOWRAP = FALSE
  F_PRUNE_OLD = TRUE
  F_LENGTHS = TRUE
  F_FULLWINDOW = TRUE
  U <- U6
  Epochs = {3}
  StartMults = {0}
  InitSets <- InitSetsSel
  AnnSets <- AnnSetsSel
  Tier = 1
  Gls = {"norm"}
  MaxLen = 4
  MaxOddTimes = 0
  ValidPct = 60
  LOG = FALSE
  SimDepth = 0
INIT Init
NEXT Next
INVARIANTS Inv_Decision
CHECK_DEADLOCK FALSE
